// Demonstration for finding F1 (property C17): put this file under /repo/tests/ and run
//   cargo test --offline --test demo_f1_kill_prefix
// It fails on the tree before commit fbc41d8 ("fix: Allocator::kill recycles ...") and passes after.
use specs::prelude::*;
#[test]
fn failing_batch_recycles_killed_prefix() {
    let mut world = World::new();
    let a = world.create_entity().build();
    let b = world.create_entity().build();
    let _c = world.create_entity().build();
    // batch with a repeated handle: the third element is dead by the time it is reached
    let r = world.delete_entities(&[a, b, a]);
    assert!(r.is_err());
    assert!(!world.is_alive(a) && !world.is_alive(b));
    // the peak of simultaneously not-yet-dead entities so far is 3 => every new index must be < 3
    let d = world.create_entity().build();
    let e = world.create_entity().build();
    assert!(d.id() < 3, "fresh index {} handed out although indices 0,1 are free", d.id());
    assert!(e.id() < 3, "fresh index {} handed out although indices 0,1 are free", e.id());
}
