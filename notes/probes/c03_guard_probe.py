import json, sys, collections, re
d=json.load(open('/tmp/facts/specs.facts.json'))
B={b['path']+'#'+str(i):b for i,b in enumerate(d['bodies'])}
bypath=collections.defaultdict(list)
for b in d['bodies']: bypath[b['path']].append(b)

def defs(body):
    """local -> list of (bb, rv or ('call',term))"""
    D=collections.defaultdict(list)
    for blk in body['blocks']:
        for s in blk['stmts']:
            if not s['dst']['proj']:
                D[s['dst']['local']].append(('stmt',blk['id'],s['rv']))
        t=blk['term']
        if t['k']=='call' and not t['dst']['proj']:
            D[t['dst']['local']].append(('call',blk['id'],t))
    return D

def op_place(o):
    if isinstance(o,dict):
        return o.get('copy') or o.get('move')
    return None

def origin(body,D,place,depth=0):
    """return a tuple describing origin"""
    if place is None or depth>30: return ('unknown',)
    l=place['local']; proj=place['proj']
    if 1<=l<=body['argc'] :
        return ('param',l,tuple(json.dumps(p) for p in proj))
    ds=D.get(l,[])
    if len(ds)!=1:
        return ('multi',l,len(ds))
    kind,bb,x=ds[0]
    if kind=='call':
        return ('call',bb,x['callee'].get('path'),tuple(json.dumps(p) for p in proj))
    rv=x
    if rv['k'] in ('use',) :
        o=rv['ops'][0]
        p=op_place(o)
        if p is None: return ('const',o.get('const'))
        r=origin(body,D,{'local':p['local'],'proj':p['proj']+proj},depth+1)
        return r
    if rv['k']=='ref':
        p=rv['place']
        return origin(body,D,{'local':p['local'],'proj':p['proj']+proj},depth+1)
    if rv['k']=='cast':
        p=op_place(rv['ops'][0])
        return origin(body,D,p,depth+1) if p else ('const',)
    return (rv['k'],l)

def succs(blk, unwind=False):
    t=blk['term']; k=t['k']; out=[]
    if k in('call','drop','assert','goto'):
        if t.get('target') is not None: out.append(t['target'])
        if unwind and isinstance(t.get('unwind'),int): out.append(t['unwind'])
    elif k=='switch':
        out=[b for _,b in t['targets']]+[t['otherwise']]
    return out

SINK_TRAITS={'storage::UnprotectedStorage':{'get','get_mut','insert','remove','drop'},'storage::SharedGetMutStorage':{'shared_get_mut'}}
def is_base_sink(c):
    return c.get('trait') in SINK_TRAITS and c.get('name') in SINK_TRAITS[c['trait']]

# derived sinks: path -> set(param idx)
sinks=collections.defaultdict(set)
trait_of={}
for b in d['bodies']:
    ti=b.get('trait_item')
    if ti and b.get('impl'): trait_of[b['path']]=ti
field_sinks=set()   # (adt-ish type prefix, field name) whose value reaches a sink
def sink_params(callee):
    if is_base_sink(callee): return {1}   # arg index 1 (0-based) is the Index
    return {p-1 for p in sinks.get(callee.get('path'),())}
ALIVE={'world::entity::Allocator::is_alive','world::entity::EntitiesRes::is_alive'}
changed=True
while changed:
    changed=False
    for b in d['bodies']:
        D=defs(b)
        for blk in b['blocks']:
            t=blk['term']
            if t['k']!='call' or 'path' not in t['callee']: continue
            for ai in sink_params(t['callee']):
                if ai>=len(t['args']): continue
                o=origin(b,D,op_place(t['args'][ai]))
                if o[0]=='param' and not o[2]:
                    ty=[l for l in b['locals'] if l['id']==o[1]][0]['ty']
                    if ty=='u32' and o[1] not in sinks[b['path']]:
                        sinks[b['path']].add(o[1]); changed=True
                        ti=trait_of.get(b['path'])
                        if ti and o[1] not in sinks[ti]:
                            sinks[ti].add(o[1])
                elif o[0]=='param' and len(o[2])>=1:
                    # index read from a field of a parameter (self.id / (*self).index)
                    projs=[json.loads(p) for p in o[2]]
                    fl=[p for p in projs if isinstance(p,dict) and 'field' in p]
                    if fl:
                        pty=[l for l in b['locals'] if l['id']==o[1]][0]['ty']
                        adt=re.sub(r"^&('\w+ )?(mut )?","",pty).split('<')[0]
                        key=(adt,fl[-1]['field'])
                        if key not in field_sinks:
                            field_sinks.add(key); changed=True
# aggregate pass
changed=True
while changed:
    changed=False
    for b in d['bodies']:
        D=defs(b)
        adts={a['path']:a for a in d['adts'] if 'path' in a}
        for blk in b['blocks']:
            for st in blk['stmts']:
                rv=st['rv']
                if rv['k']=='aggregate' and 'adt' in rv:
                    a=adts.get(rv['adt'])
                    if not a: continue
                    v=[x for x in a['variants'] if x['name']==rv['variant']]
                    if not v: continue
                    for fi,f in enumerate(v[0]['fields']):
                        if (rv['adt'].split('<')[0],f['name']) in field_sinks or any(k[1]==f['name'] and rv['adt'].endswith(k[0].split('::')[-1]) for k in field_sinks):
                            o=origin(b,D,op_place(rv['ops'][fi]))
                            if o[0]=='param' and not o[2]:
                                ty=[l for l in b['locals'] if l['id']==o[1]][0]['ty']
                                if ty=='u32' and o[1] not in sinks[b['path']]:
                                    sinks[b['path']].add(o[1]); changed=True
print("field sinks:",sorted(field_sinks))
print("derived sinks:")
for k,v in sorted(sinks.items()): print("  ",k,sorted(v))

def guarded(body,site_bb,entity_origin,D):
    """site unreachable when true-edges of is_alive(entity) switches removed"""
    removed=set()
    for blk in body['blocks']:
        t=blk['term']
        if t['k']=='call' and t['callee'].get('path') in ALIVE:
            eo=origin(body,D,op_place(t['args'][1]))
            if eo!=entity_origin: continue
            res=t['dst']['local']; tgt=t['target']
            tb=[x for x in body['blocks'] if x['id']==tgt][0]
            tt=tb['term']
            if tt['k']=='switch' and op_place(tt['discr']) and op_place(tt['discr'])['local']==res:
                removed.add((tgt,tt['otherwise']))
    seen={0}; st=[0]
    blocks={x['id']:x for x in body['blocks']}
    while st:
        n=st.pop()
        for s in succs(blocks[n]):
            if (n,s) in removed: continue
            if s not in seen: seen.add(s); st.append(s)
    return site_bb not in seen, len(removed)

print("\nC03-R1 instances:")
n=0
for b in d['bodies']:
    D=defs(b)
    for blk in b['blocks']:
        t=blk['term']
        if t['k']!='call' or 'path' not in t['callee']: continue
        for ai in sink_params(t['callee']):
            if ai>=len(t['args']): continue
            o=origin(b,D,op_place(t['args'][ai]))
            if o[0]=='call' and o[2]=='world::entity::Entity::id':
                idcall=[x for x in b['blocks'] if x['id']==o[1]][0]['term']
                eo=origin(b,D,op_place(idcall['args'][0]))
                g,nrem=guarded(b,blk['id'],eo,D)
                n+=1
                print(f"  {'OK ' if g else 'UNGUARDED'} {b['path']} -> {t['callee']['path']} @{b['file']}:{t['line']} entity={eo[:2]} guards={nrem}")
print(n)
