import json, collections
d=json.load(open('/tmp/facts/specs.facts.json'))
adts={a['path']:a for a in d['adts'] if 'path' in a}
bodies={b['path']:b for b in d['bodies']}
def blocks(b): return {x['id']:x for x in b['blocks']}
def op_place(o): return (o.get('copy') or o.get('move')) if isinstance(o,dict) else None

def flag_locals(b):
    """locals assigned only boolean constants -> candidates for const-prop"""
    ok=collections.defaultdict(lambda: True); seen=set()
    for blk in b['blocks']:
        for s in blk['stmts']:
            l=s['dst']['local']
            if s['dst']['proj']: continue
            seen.add(l)
            rv=s['rv']
            if not (rv['k']=='use' and 'const' in rv['ops'][0] and rv['ops'][0]['const'] in ('const true','const false','true','false')):
                ok[l]=False
        t=blk['term']
        if t['k']=='call' and not t['dst']['proj']: ok[t['dst']['local']]=False; seen.add(t['dst']['local'])
    return {l for l in seen if ok[l]}

def constprop(b):
    """forward: state at block entry = dict local->True/False/'T' (top)"""
    F=flag_locals(b); B=blocks(b)
    IN={0:{}}; work=[0]
    def join(a,c):
        out={}
        for k in set(a)|set(c):
            va=a.get(k,'bot'); vc=c.get(k,'bot')
            out[k]= va if vc=='bot' else vc if va=='bot' else (va if va==vc else 'T')
        return out
    def transfer(blk,st,upto_term=True):
        st=dict(st)
        for s in blk['stmts']:
            l=s['dst']['local']
            if l in F and not s['dst']['proj']:
                st[l]= 'true' in s['rv']['ops'][0]['const']
        return st
    OUT={}
    while work:
        n=work.pop(); blk=B[n]; st=transfer(blk,IN[n]); OUT[n]=st
        t=blk['term']; succ=[]
        if t['k']=='switch':
            p=op_place(t['discr']); v=None
            if p and not p['proj'] and p['local'] in st and st[p['local']] in (True,False): v=st[p['local']]
            if 'const' in t['discr']: v='true' in t['discr']['const']
            if v is None: succ=[x for _,x in t['targets']]+[t['otherwise']]
            else:
                tv=dict((val,x) for val,x in t['targets'])
                succ=[tv.get(1 if v else 0, t['otherwise'])] if (1 if v else 0) in tv else [t['otherwise']]
        else:
            if t.get('target') is not None: succ.append(t['target'])
            if isinstance(t.get('unwind'),int): succ.append(t['unwind'])
        for s in succ:
            new=join(IN.get(s,{}),st) if s in IN else dict(st)
            if IN.get(s)!=new: IN[s]=new; work.append(s)
    return IN,OUT

def feasible_unwind_path_calls(b,start_bb):
    """from the unwind edge of call in start_bb, collect drops/calls on feasible cleanup paths"""
    IN,OUT=constprop(b); B=blocks(b)
    if start_bb not in OUT: return 'INFEASIBLE-BLOCK'
    st=OUT[start_bb]; cur=[ (B[start_bb]['term']['unwind'],st) ]; seen=set(); ev=[]
    while cur:
        n,st=cur.pop()
        if n in seen: continue
        seen.add(n); blk=B[n]; t=blk['term']
        st=dict(st)
        for s in blk['stmts']:
            l=s['dst']['local']
            if l in flag_locals(b) and not s['dst']['proj']: st[l]='true' in s['rv']['ops'][0]['const']
        if t['k']=='drop': ev.append(('drop',t['place_ty'],t['line']))
        if t['k']=='call': ev.append(('call',t['callee'].get('path'),t['line']))
        if t['k']=='switch':
            p=op_place(t['discr']); v=st.get(p['local']) if p and not p['proj'] else None
            tv=dict((val,x) for val,x in t['targets'])
            if v in (True,False):
                cur.append((tv.get(1 if v else 0,t['otherwise']),st))
            else:
                for x in list(tv.values())+[t['otherwise']]: cur.append((x,st))
        else:
            if t.get('target') is not None: cur.append((t['target'],st))
    return ev

b=bodies['storage::Storage::<\'e, T, D>::not_present_insert']
for blk in b['blocks']:
    t=blk['term']
    if t['k']=='call' and t['callee'].get('path')=='hibitset::BitSet::add':
        print('mask.add at bb',blk['id'],'line',t['line'],'unwind',t['unwind'])
        if isinstance(t['unwind'],int):
            ev=feasible_unwind_path_calls(b,blk['id'])
            print('   cleanup events:',ev)
            for e in ev:
                if e[0]=='drop':
                    tyname=e[1].split('<')[0]
                    cands=[a for p,a in adts.items() if p.split('<')[0]==tyname or tyname.endswith(p.split('::')[-1])]
                    for a in cands:
                        if a['drop']:
                            db=bodies.get(a['drop'])
                            print('   drop glue of',a['path'],'->',a['drop'],[x['term']['callee'].get('path') for x in db['blocks'] if x['term']['k']=='call'] if db else None)
# R1: clear
for name in ["storage::MaskedStorage::<T>::clear","changeset::ChangeSet::<T>::clear"]:
    b=bodies[name]
    for blk in b['blocks']:
        t=blk['term']
        if t['k']=='call' and t['callee'].get('name')=='clean':
            print(name,'clean args',t['args'][1])
# R2: drop
b=bodies["storage::MaskedStorage::<T>::drop"]
print([ (x['id'],x['term']['k'],x['term'].get('callee',{}).get('path')) for x in b['blocks']])
