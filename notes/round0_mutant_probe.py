# Round-0 probe data, NOT part of the checking machinery and not registered anywhere.
#
# Thirty hand-written one-edit mutants of /repo used while writing DESIGN.md to find out
# which property-breaking edits the pinned 77-test suite notices (results in
# round0_mutant_probe_results.txt: 18 of 30 survive all 77 tests). Usage during the probe:
#   rsync -a --exclude target --exclude .git /repo/ <scratch>/ ; python3 this.py <name> <scratch>
# The build round turns these into /verif/mutants/*.patch for bin/selftest.
import sys,re,io
# each mutant: (name, file, old, new)
M = {
 "M01_c03_getmut_no_alive": ("src/storage/mod.rs",
   "    pub fn get_mut(&mut self, e: Entity) -> Option<AccessMutReturn<'_, T>> {\n        if self.data.mask.contains(e.id()) && self.entities.is_alive(e) {",
   "    pub fn get_mut(&mut self, e: Entity) -> Option<AccessMutReturn<'_, T>> {\n        if self.data.mask.contains(e.id()) {"),
 "M02_c19_drop_order": ("src/storage/mod.rs",
   "        if self.mask.remove(id) {\n            // SAFETY: We checked the mask and removed the id before calling\n            // drop (`remove` returned `true`).\n            unsafe {\n                self.inner.drop(id);\n            }\n        }",
   "        if self.mask.contains(id) {\n            unsafe {\n                self.inner.drop(id);\n            }\n            self.mask.remove(id);\n        }"),
 "M03_c12_no_removed_event": ("src/storage/flagged.rs",
   "                .single_write(ComponentEvent::Removed(id));\n        }",
   "                ;\n        }"),
 "M04_c11_write_declared_as_read": ("src/storage/data.rs",
   "    fn reads() -> Vec<ResourceId> {\n        vec![ResourceId::new::<EntitiesRes>()]\n    }\n\n    fn writes() -> Vec<ResourceId> {\n        vec![ResourceId::new::<MaskedStorage<T>>()]\n    }",
   "    fn reads() -> Vec<ResourceId> {\n        vec![ResourceId::new::<EntitiesRes>(), ResourceId::new::<MaskedStorage<T>>()]\n    }\n\n    fn writes() -> Vec<ResourceId> {\n        vec![]\n    }"),
 "M05_c05_setup_no_register": ("src/storage/data.rs",
   "            .or_insert_with(|| MaskedStorage::new(<T::Storage as TryDefault>::unwrap_default()));\n        res.fetch_mut::<MetaTable<dyn AnyStorage>>()\n            .register::<MaskedStorage<T>>();\n    }\n\n    fn fetch(res: &'a World) -> Self {\n        Storage::new(res.fetch(), res.fetch())",
   "            .or_insert_with(|| MaskedStorage::new(<T::Storage as TryDefault>::unwrap_default()));\n    }\n\n    fn fetch(res: &'a World) -> Self {\n        Storage::new(res.fetch(), res.fetch())"),
 "M06_c09_lazy_before_merge": ("src/world/world_ext.rs",
   "        let deleted = self.entities_mut().alloc.merge();\n        if !deleted.is_empty() {\n            self.delete_components(&deleted);\n        }\n\n        let lazy = self.write_resource::<LazyUpdate>().clone();\n        lazy.maintain(self);",
   "        let lazy = self.write_resource::<LazyUpdate>().clone();\n        lazy.maintain(self);\n\n        let deleted = self.entities_mut().alloc.merge();\n        if !deleted.is_empty() {\n            self.delete_components(&deleted);\n        }"),
 "M07_c02_kill_keeps_killed_bit": ("src/world/entity.rs",
   "            self.killed.remove(entity.id());\n", ""),
 "M08_c19_clear_live_mask": ("src/storage/mod.rs",
   "        let mut mask_temp = core::mem::take(&mut self.mask);\n        // SAFETY: `self.mask` is the correct mask as specified. We swap in a\n        // temporary empty mask to ensure if this unwinds that the mask will be\n        // cleared.\n        unsafe { self.inner.clean(&mask_temp) };\n        mask_temp.clear();\n        self.mask = mask_temp;",
   "        unsafe { self.inner.clean(&self.mask) };\n        self.mask.clear();"),
 "M09_c05_purge_whole_batch_on_error": ("src/world/world_ext.rs",
   "            self.delete_components(&delete[..failed_index]);", "            self.delete_components(delete);"),
 "M10_c01_extend_no_maintain": ("src/world/entity.rs",
   "    fn extend<T: IntoIterator<Item = Index>>(&mut self, iter: T) {\n        self.maintain();\n", "    fn extend<T: IntoIterator<Item = Index>>(&mut self, iter: T) {\n"),
 "M11_c07_no_distinct_bound": ("src/storage/mod.rs",
   "    T::Storage: Sync + SharedGetMutStorage<T> + DistinctStorage,\n{\n    type Mask = &'a BitSet;\n    type Type = AccessMutReturn<'a, T>;",
   "    T::Storage: Sync + SharedGetMutStorage<T>,\n{\n    type Mask = &'a BitSet;\n    type Type = AccessMutReturn<'a, T>;"),
 "M12_c04_silent_overwrite": ("src/storage/mod.rs",
   "                std::mem::swap(&mut v, unsafe { self.data.inner.get_mut(id) }.access_mut());\n                Ok(Some(v))",
   "                *unsafe { self.data.inner.get_mut(id) }.access_mut() = v;\n                Ok(None)"),
 "M13_c02_builder_drop_noop": ("src/world/mod.rs",
   "        if !self.built {\n            self.world\n                .read_resource::<EntitiesRes>()\n                .delete(self.entity)\n                .unwrap();\n        }", "        let _ = self.built;"),
 "M14_c13_getother_no_alive": ("src/storage/restrict.rs",
   "    pub fn get_other_mut(&mut self, entity: Entity) -> Option<AccessMutReturn<'_, C>> {\n        if self.bitset.contains(entity.id()) && self.entities.is_alive(entity) {",
   "    pub fn get_other_mut(&mut self, entity: Entity) -> Option<AccessMutReturn<'_, C>> {\n        if self.bitset.contains(entity.id()) {"),
 "M15_c16_overwrite_not_add": ("src/changeset.rs",
   "            unsafe { *self.inner.get_mut(entity.id()) += value };", "            unsafe { *self.inner.get_mut(entity.id()) = value };"),
 "M16_c10_pop_load_store": ("src/world/entity.rs",
   "        atomic_decrement(&self.len).map(|x| self.cache[x - 1])",
   "        let x = self.len.load(Ordering::Relaxed);\n        if x == 0 { return None; }\n        self.len.store(x - 1, Ordering::Relaxed);\n        Some(self.cache[x - 1])"),
 "M17_c08_null_insert_drops": ("src/storage/storages.rs",
   "        core::mem::forget(v)\n", "        drop(v)\n"),
 "M18_c09_if_let_single": ("src/world/lazy.rs",
   "        while let Some(l) = self.queue.0.pop() {\n            l.update(world);\n        }\n    }\n}\n\nimpl Drop",
   "        if let Some(l) = self.queue.0.pop() {\n            l.update(world);\n        }\n    }\n}\n\nimpl Drop"),
 "M20_c12_deref_mut_no_event": ("src/storage/deref_flagged.rs",
   "        if self.emit {\n            self.channel.single_write(ComponentEvent::Modified(self.id));\n        }\n", ""),
 "M22_c01_kill_no_raise_fold": ("src/world/entity.rs",
   "            if self.raised.remove(entity.id()) {\n                self.generations[id].raise();\n            }\n", "            self.raised.remove(entity.id());\n"),
 "M24_c03_remove_no_alive": ("src/storage/mod.rs",
   "    pub fn remove(&mut self, e: Entity) -> Option<T> {\n        if self.entities.is_alive(e) {\n            self.data.remove(e.id())\n        } else {\n            None\n        }\n    }",
   "    pub fn remove(&mut self, e: Entity) -> Option<T> {\n        self.data.remove(e.id())\n    }"),
 "M26_c19_dense_clean_order": ("src/storage/storages.rs",
   "        self.data_id.clear();\n        self.entity_id.clear();\n        self.data.clear();", "        self.data.clear();\n        self.data_id.clear();\n        self.entity_id.clear();"),
 "M27_c02_kill_atomic_no_check": ("src/world/entity.rs",
   "    pub fn kill_atomic(&self, e: Entity) -> Result<(), WrongGeneration> {\n        if !self.is_alive(e) {\n            return Err(self.del_err(e));\n        }\n", "    pub fn kill_atomic(&self, e: Entity) -> Result<(), WrongGeneration> {\n"),
 "M29_c09_exec_pushes_twice_mut": ("src/world/lazy.rs",
   "            self.queue.0.push(Box::new(f));\n        }\n    }\n\n    /// Creates a new `LazyBuilder`", "            self.queue.0.push(Box::new(f));\n            self.queue.0.push(Box::new(|_: &mut World| {}));\n        }\n    }\n\n    /// Creates a new `LazyBuilder`"),
 "M30_c06_parjoin_entities_alive_only": ("src/world/entity.rs",
   "unsafe impl<'a> ParJoin for &'a EntitiesRes {\n    type Mask = BitSetOr<&'a BitSet, &'a AtomicBitSet>;\n    type Type = Entity;\n    type Value = Self;\n\n    unsafe fn open(self) -> (Self::Mask, Self::Value) {\n        (BitSetOr(&self.alloc.alive, &self.alloc.raised), self)",
   "unsafe impl<'a> ParJoin for &'a EntitiesRes {\n    type Mask = &'a BitSet;\n    type Type = Entity;\n    type Value = Self;\n\n    unsafe fn open(self) -> (Self::Mask, Self::Value) {\n        (&self.alloc.alive, self)"),
 "M31_c08_no_masked_drop": ("src/storage/mod.rs",
   "impl<T: Component> Drop for MaskedStorage<T> {\n    fn drop(&mut self) {\n        self.clear();\n    }\n}\n", ""),
 "M32_c12_insert_wrong_variant": ("src/storage/flagged.rs",
   "                .single_write(ComponentEvent::Inserted(id));", "                .single_write(ComponentEvent::Modified(id));"),
 "M37_c03_entry_no_alive": ("src/storage/entry.rs",
   "        if self.entities.is_alive(e) {\n            Ok(self.entry_inner(e.id()))\n        } else {", "        if true {\n            Ok(self.entry_inner(e.id()))\n        } else {"),
 "M38_c05_maintain_no_purge": ("src/world/world_ext.rs",
   "        if !deleted.is_empty() {\n            self.delete_components(&deleted);\n        }\n\n        let lazy", "        let _ = &deleted;\n\n        let lazy"),
 "M39_c13_lendget_no_alive": ("src/join/lend_join.rs",
   "        if self.keys.contains(entity.id()) && entities.is_alive(entity) {", "        let _ = entities;\n        if self.keys.contains(entity.id()) {"),
}
name=sys.argv[1]; root=sys.argv[2]
f,old,new=M[name]
p=root+"/"+f
s=open(p).read()
assert s.count(old)>=1, ("pattern not found", name)
if name in ("M03_c12_no_removed_event",): 
    i=s.index(old); s=s[:i]+new+s[i+len(old):]
else:
    assert s.count(old)==1 or name.startswith("M05"), (name, s.count(old))
    s=s.replace(old,new,1)
open(p,'w').write(s)
print("applied",name)
