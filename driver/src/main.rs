#![feature(rustc_private)]
extern crate rustc_abi;
extern crate rustc_driver;
extern crate rustc_hir;
extern crate rustc_interface;
extern crate rustc_middle;
extern crate rustc_span;

use rustc_driver::{Callbacks, Compilation};
use rustc_hir::def::DefKind;
use rustc_interface::interface::Compiler;
use rustc_middle::mir::{
    AggregateKind, Body, Operand, Place, ProjectionElem, Rvalue, StatementKind, TerminatorKind,
    UnwindAction,
};
use rustc_middle::ty::{self, Ty, TyCtxt};
use rustc_span::def_id::{DefId, LOCAL_CRATE};
use std::fmt::Write as _;

fn esc(s: &str) -> String {
    let mut o = String::with_capacity(s.len() + 2);
    o.push('"');
    for c in s.chars() {
        match c {
            '"' => o.push_str("\\\""),
            '\\' => o.push_str("\\\\"),
            '\n' => o.push_str("\\n"),
            '\t' => o.push_str("\\t"),
            c if (c as u32) < 0x20 => {
                let _ = write!(o, "\\u{:04x}", c as u32);
            }
            c => o.push(c),
        }
    }
    o.push('"');
    o
}

struct Cx<'tcx> {
    tcx: TyCtxt<'tcx>,
    cur: std::cell::Cell<Option<DefId>>,
}

impl<'tcx> Cx<'tcx> {
    fn place(&self, body: &Body<'tcx>, p: &Place<'tcx>) -> String {
        let tcx = self.tcx;
        let mut s = format!("{{\"local\":{},\"proj\":[", p.local.as_usize());
        let mut ty = rustc_middle::mir::PlaceTy::from_ty(body.local_decls[p.local].ty);
        let mut first = true;
        for elem in p.projection.iter() {
            if !first {
                s.push(',');
            }
            first = false;
            match elem {
                ProjectionElem::Deref => s.push_str("\"deref\""),
                ProjectionElem::Field(f, _) => {
                    let mut name = format!("{}", f.as_usize());
                    let mut of = String::new();
                    if let ty::Adt(adt, _) = ty.ty.kind() {
                        of = tcx.def_path_str(adt.did());
                        let vidx = ty.variant_index.unwrap_or(rustc_abi::FIRST_VARIANT);
                        if adt.is_enum() || adt.is_struct() || adt.is_union() {
                            if let Some(v) = adt.variants().get(vidx) {
                                if let Some(fd) = v.fields.get(f) {
                                    name = fd.name.to_string();
                                }
                            }
                        }
                    }
                    let _ = write!(s, "{{\"field\":{},\"idx\":{},\"of\":{}}}", esc(&name), f.as_usize(), esc(&of));
                }
                ProjectionElem::Downcast(name, vi) => {
                    let n = name.map(|n| n.to_string()).unwrap_or_else(|| format!("{}", vi.as_usize()));
                    let _ = write!(s, "{{\"downcast\":{}}}", esc(&n));
                }
                ProjectionElem::Index(l) => {
                    let _ = write!(s, "{{\"index\":{}}}", l.as_usize());
                }
                other => {
                    let _ = write!(s, "{}", esc(&format!("{:?}", other)));
                }
            }
            ty = ty.projection_ty(tcx, elem);
        }
        s.push_str("]}");
        s
    }

    fn operand(&self, body: &Body<'tcx>, o: &Operand<'tcx>) -> String {
        match o {
            Operand::Copy(p) => format!("{{\"copy\":{},\"ty\":{}}}", self.place(body, p), esc(&format!("{}", p.ty(body, self.tcx).ty))),
            Operand::Move(p) => format!("{{\"move\":{},\"ty\":{}}}", self.place(body, p), esc(&format!("{}", p.ty(body, self.tcx).ty))),
            Operand::Constant(c) => {
                let t = c.const_.ty();
                let mut extra = String::new();
                if let ty::FnDef(d, ga) = t.kind() {
                    let _ = write!(extra, ",\"fn\":{},\"substs\":{}", esc(&self.tcx.def_path_str(*d)), esc(&format!("{:?}", ga)));
                }
                format!("{{\"const\":{},\"ty\":{}{}}}", esc(&format!("{}", c.const_)), esc(&format!("{}", t)), extra)
            }
            #[allow(unreachable_patterns)]
            _ => esc(&format!("{:?}", o)),
        }
    }

    fn callee(&self, func: &Operand<'tcx>) -> String {
        let tcx = self.tcx;
        if let Operand::Constant(c) = func {
            if let ty::FnDef(d, ga) = c.const_.ty().kind() {
                let path = tcx.def_path_str(*d);
                let krate = tcx.crate_name(d.krate).to_string();
                let mut tr = String::from("null");
                let mut self_ty = String::from("null");
                if let Some(assoc) = tcx.opt_associated_item(*d) {
                    if let Some(trait_did) = assoc.trait_container(tcx) {
                        tr = esc(&tcx.def_path_str(trait_did));
                        if ga.len() > 0 {
                            if let Some(t) = ga[0].as_type() {
                                self_ty = esc(&format!("{}", t));
                            }
                        }
                    } else if let Some(impl_did) = assoc.impl_container(tcx) {
                        let t = tcx.type_of(impl_did).instantiate_identity().skip_norm_wip();
                        self_ty = esc(&format!("{}", t));
                    }
                }
                let substs: Vec<String> = ga.iter().map(|a| esc(&format!("{}", a))).collect();
                let mut resolved = String::from("null");
                if let Some(cur) = self.cur.get() {
                    let env = ty::TypingEnv::post_analysis(tcx, cur);
                    if let Ok(Some(inst)) = ty::Instance::try_resolve(tcx, env, *d, ga) {
                        let rd = inst.def_id();
                        if rd != *d {
                            resolved = esc(&tcx.def_path_str(rd));
                        } else if let ty::InstanceKind::Item(_) = inst.def {
                            // same def: a provided method or a plain fn
                        }
                        if let ty::InstanceKind::Virtual(..) = inst.def {
                            resolved = String::from("\"<virtual>\"");
                        }
                    }
                }
                return format!(
                    "{{\"path\":{},\"crate\":{},\"trait\":{},\"self_ty\":{},\"name\":{},\"substs\":[{}],\"resolved\":{}}}",
                    esc(&path), esc(&krate), tr, self_ty, esc(tcx.item_name(*d).as_str()), substs.join(","), resolved
                );
            }
        }
        format!("{{\"indirect\":{}}}", esc(&format!("{:?}", func)))
    }

    fn line(&self, sp: rustc_span::Span) -> (String, usize, bool) {
        let sm = self.tcx.sess.source_map();
        let lo = sm.lookup_char_pos(sp.lo());
        (format!("{}", lo.file.name.prefer_local_unconditionally()), lo.line, sp.from_expansion())
    }

    fn body(&self, did: DefId, out: &mut String) {
        let tcx = self.tcx;
        self.cur.set(Some(did));
        let body = tcx.optimized_mir(did);
        let kind = tcx.def_kind(did);
        let (file, line, _) = self.line(tcx.def_span(did));
        let sig_unsafe = match kind {
            DefKind::Fn | DefKind::AssocFn => tcx.fn_sig(did).skip_binder().safety().is_unsafe(),
            _ => false,
        };
        let vis = match kind {
            DefKind::Fn | DefKind::AssocFn => format!("{:?}", tcx.visibility(did)),
            _ => "closure".to_string(),
        };
        let parent = tcx.opt_parent(did).map(|p| tcx.def_path_str(p)).unwrap_or_default();
        let mut impl_of = String::from("null");
        let mut trait_item = String::from("null");
        let mut self_ty = String::from("null");
        if let Some(assoc) = tcx.opt_associated_item(did) {
            if let Some(i) = assoc.impl_container(tcx) {
                impl_of = esc(&format!("{:?}", i));
                self_ty = esc(&format!("{}", tcx.type_of(i).instantiate_identity().skip_norm_wip()));
                if let Some(ti) = assoc.trait_item_def_id() {
                    trait_item = esc(&tcx.def_path_str(ti));
                }
            } else if let Some(t) = assoc.trait_container(tcx) {
                trait_item = esc(&format!("{}::{}(provided)", tcx.def_path_str(t), assoc.name()));
            }
        }
        let _ = write!(
            out,
            "{{\"path\":{},\"kind\":{},\"parent\":{},\"impl\":{},\"trait_item\":{},\"vis\":{},\"unsafe\":{},\"file\":{},\"line\":{},\"argc\":{},\"self_ty\":{},\"name\":{},",
            esc(&tcx.def_path_str(did)), esc(&format!("{:?}", kind)), esc(&parent), impl_of, trait_item, esc(&vis), sig_unsafe, esc(&file), line, body.arg_count, self_ty,
            esc(&tcx.opt_item_name(did).map(|n| n.to_string()).unwrap_or_default())
        );
        out.push_str("\"locals\":[");
        for (i, (l, d)) in body.local_decls.iter_enumerated().enumerate() {
            if i > 0 {
                out.push(',');
            }
            let _ = write!(out, "{{\"id\":{},\"ty\":{}}}", l.as_usize(), esc(&format!("{}", d.ty)));
        }
        out.push_str("],\"dbg\":{");
        let mut firstd = true;
        for vdi in &body.var_debug_info {
            if let rustc_middle::mir::VarDebugInfoContents::Place(p) = &vdi.value {
                if !firstd {
                    out.push(',');
                }
                firstd = false;
                let _ = write!(out, "{}:{}", esc(&format!("{}#{}", vdi.name, p.local.as_usize())), self.place(body, p));
            }
        }
        out.push_str("},\"blocks\":[");
        for (bi, (bb, data)) in body.basic_blocks.iter_enumerated().enumerate() {
            if bi > 0 {
                out.push(',');
            }
            let _ = write!(out, "{{\"id\":{},\"cleanup\":{},\"stmts\":[", bb.as_usize(), data.is_cleanup);
            let mut firsts = true;
            for st in &data.statements {
                if let StatementKind::Assign(b) = &st.kind {
                    let (dst, rv) = &**b;
                    if !firsts {
                        out.push(',');
                    }
                    firsts = false;
                    let (_, sl, _) = self.line(st.source_info.span);
                    let _ = write!(out, "{{\"dst\":{},\"rv\":{},\"line\":{}}}", self.place(body, dst), self.rvalue(body, rv), sl);
                } else if let StatementKind::SetDiscriminant { place, variant_index } = &st.kind {
                    if !firsts {
                        out.push(',');
                    }
                    firsts = false;
                    let (_, sl, _) = self.line(st.source_info.span);
                    let _ = write!(out, "{{\"dst\":{},\"rv\":{{\"k\":\"setdiscr\",\"variant\":{},\"ops\":[]}},\"line\":{}}}", self.place(body, place), variant_index.as_usize(), sl);
                }
            }
            out.push_str("],\"term\":");
            let t = data.terminator();
            let (_, tl, exp) = self.line(t.source_info.span);
            let uw = |u: &UnwindAction| match u {
                UnwindAction::Continue => "\"continue\"".to_string(),
                UnwindAction::Unreachable => "\"unreachable\"".to_string(),
                UnwindAction::Terminate(_) => "\"terminate\"".to_string(),
                UnwindAction::Cleanup(b) => format!("{}", b.as_usize()),
            };
            match &t.kind {
                TerminatorKind::Call { func, args, destination, target, unwind, .. } => {
                    let a: Vec<String> = args.iter().map(|x| self.operand(body, &x.node)).collect();
                    let _ = write!(
                        out,
                        "{{\"k\":\"call\",\"callee\":{},\"args\":[{}],\"dst\":{},\"target\":{},\"unwind\":{}",
                        self.callee(func), a.join(","), self.place(body, destination),
                        target.map(|b| format!("{}", b.as_usize())).unwrap_or("null".into()), uw(unwind)
                    );
                }
                TerminatorKind::SwitchInt { discr, targets } => {
                    let tv: Vec<String> = targets.iter().map(|(v, b)| format!("[{},{}]", v, b.as_usize())).collect();
                    let _ = write!(
                        out,
                        "{{\"k\":\"switch\",\"discr\":{},\"targets\":[{}],\"otherwise\":{}",
                        self.operand(body, discr), tv.join(","), targets.otherwise().as_usize()
                    );
                }
                TerminatorKind::Drop { place, target, unwind, .. } => {
                    let pty = place.ty(body, tcx).ty;
                    let _ = write!(
                        out,
                        "{{\"k\":\"drop\",\"place\":{},\"place_ty\":{},\"target\":{},\"unwind\":{}",
                        self.place(body, place), esc(&format!("{}", pty)), target.as_usize(), uw(unwind)
                    );
                }
                TerminatorKind::Goto { target } => {
                    let _ = write!(out, "{{\"k\":\"goto\",\"target\":{}", target.as_usize());
                }
                TerminatorKind::Assert { target, unwind, msg, .. } => {
                    let _ = write!(out, "{{\"k\":\"assert\",\"target\":{},\"unwind\":{},\"msg\":{}", target.as_usize(), uw(unwind), esc(&format!("{:?}", msg).chars().take(60).collect::<String>()));
                }
                TerminatorKind::Return => out.push_str("{\"k\":\"return\""),
                TerminatorKind::UnwindResume => out.push_str("{\"k\":\"resume\""),
                TerminatorKind::Unreachable => out.push_str("{\"k\":\"unreachable\""),
                other => {
                    let _ = write!(out, "{{\"k\":\"other\",\"dbg\":{}", esc(&format!("{:?}", other).chars().take(80).collect::<String>()));
                }
            }
            let _ = write!(out, ",\"line\":{},\"exp\":{}}}}}", tl, exp);
        }
        out.push_str("]}");
    }

    fn rvalue(&self, body: &Body<'tcx>, rv: &Rvalue<'tcx>) -> String {
        let tcx = self.tcx;
        match rv {
            Rvalue::Use(o, _) => format!("{{\"k\":\"use\",\"ops\":[{}]}}", self.operand(body, o)),
            Rvalue::Ref(_, bk, p) => format!("{{\"k\":\"ref\",\"mut\":{},\"place\":{}}}", matches!(bk, rustc_middle::mir::BorrowKind::Mut { .. }), self.place(body, p)),
            Rvalue::RawPtr(_, p) => format!("{{\"k\":\"rawptr\",\"place\":{}}}", self.place(body, p)),
            Rvalue::CopyForDeref(p) => format!("{{\"k\":\"use\",\"ops\":[{{\"copy\":{}}}]}}", self.place(body, p)),
            Rvalue::Cast(ck, o, t) => format!("{{\"k\":\"cast\",\"cast\":{},\"ops\":[{}],\"ty\":{}}}", esc(&format!("{:?}", ck)), self.operand(body, o), esc(&format!("{}", t))),
            Rvalue::BinaryOp(op, b) => format!("{{\"k\":\"binop\",\"op\":{},\"ops\":[{},{}]}}", esc(&format!("{:?}", op)), self.operand(body, &b.0), self.operand(body, &b.1)),
            Rvalue::UnaryOp(op, o) => format!("{{\"k\":\"unop\",\"op\":{},\"ops\":[{}]}}", esc(&format!("{:?}", op)), self.operand(body, o)),
            Rvalue::Discriminant(p) => format!("{{\"k\":\"discriminant\",\"place\":{}}}", self.place(body, p)),
            Rvalue::Aggregate(ak, ops) => {
                let o: Vec<String> = ops.iter().map(|x| self.operand(body, x)).collect();
                let mut extra = String::new();
                match &**ak {
                    AggregateKind::Adt(d, vi, _, _, _) => {
                        let adt = tcx.adt_def(*d);
                        let v = &adt.variants()[*vi];
                        let _ = write!(extra, ",\"adt\":{},\"variant\":{}", esc(&tcx.def_path_str(*d)), esc(v.name.as_str()));
                    }
                    AggregateKind::Closure(d, _) => {
                        let _ = write!(extra, ",\"closure\":{}", esc(&tcx.def_path_str(*d)));
                    }
                    AggregateKind::Tuple => extra.push_str(",\"tuple\":true"),
                    other => {
                        let _ = write!(extra, ",\"agg\":{}", esc(&format!("{:?}", other).chars().take(40).collect::<String>()));
                    }
                }
                format!("{{\"k\":\"aggregate\"{},\"ops\":[{}]}}", extra, o.join(","))
            }
            other => format!("{{\"k\":\"other\",\"dbg\":{}}}", esc(&format!("{:?}", other).chars().take(80).collect::<String>())),
        }
    }
}

fn ty_has_interior_mut<'tcx>(tcx: TyCtxt<'tcx>, t: Ty<'tcx>) -> bool {
    !t.is_freeze(tcx, ty::TypingEnv::fully_monomorphized())
}

struct Cb;
impl Callbacks for Cb {
    fn after_analysis<'tcx>(&mut self, _c: &Compiler, tcx: TyCtxt<'tcx>) -> Compilation {
        let krate = tcx.crate_name(LOCAL_CRATE).to_string();
        let want = std::env::var("FACTS_CRATES").unwrap_or_else(|_| "specs".into());
        if !want.split(',').any(|w| w == krate) {
            return Compilation::Continue;
        }
        let cx = Cx { tcx, cur: std::cell::Cell::new(None) };
        let mut out = String::new();
        let _ = write!(
            out,
            "{{\"crate\":{},\"config\":{},\"tree\":{},\"bodies\":[",
            esc(&krate),
            esc(&std::env::var("FACTS_CONFIG").unwrap_or_default()),
            esc(&std::env::var("FACTS_TREE").unwrap_or_default())
        );
        let mut n = 0;
        for ldid in tcx.mir_keys(()) {
            let did = ldid.to_def_id();
            let kind = tcx.def_kind(did);
            if !matches!(kind, DefKind::Fn | DefKind::AssocFn | DefKind::Closure) {
                continue;
            }
            if n > 0 {
                out.push(',');
            }
            n += 1;
            cx.body(did, &mut out);
        }
        out.push_str("],\"impls\":[");
        let mut first = true;
        for (trait_did, impls) in tcx.all_local_trait_impls(()) {
            for i in impls {
                let idid = i.to_def_id();
                let tr = tcx.impl_trait_ref(idid).instantiate_identity().skip_norm_wip();
                let preds: Vec<String> = tcx
                    .predicates_of(idid)
                    .instantiate_identity(tcx)
                    .predicates
                    .iter()
                    .map(|p| esc(&format!("{}", p.skip_norm_wip())))
                    .collect();
                let mut assoc = Vec::new();
                for it in tcx.associated_items(idid).in_definition_order() {
                    if matches!(it.kind, ty::AssocKind::Type { .. }) {
                        let t = tcx.type_of(it.def_id).instantiate_identity().skip_norm_wip();
                        assoc.push(format!("{}:{}", esc(it.name().as_str()), esc(&format!("{}", t))));
                    }
                }
                if !first {
                    out.push(',');
                }
                first = false;
                let (f, l, _) = cx.line(tcx.def_span(idid));
                let mut items = Vec::new();
                for it in tcx.associated_items(idid).in_definition_order() {
                    if matches!(it.kind, ty::AssocKind::Fn { .. }) {
                        items.push(format!("{}:{}", esc(it.name().as_str()), esc(&tcx.def_path_str(it.def_id))));
                    }
                }
                let targs: Vec<String> = tr.args.iter().skip(1).map(|a| esc(&format!("{}", a))).collect();
                let _ = write!(
                    out,
                    "{{\"id\":{},\"trait\":{},\"trait_args\":[{}],\"self_ty\":{},\"preds\":[{}],\"assoc\":{{{}}},\"items\":{{{}}},\"polarity\":{},\"file\":{},\"line\":{}}}",
                    esc(&format!("{:?}", idid)), esc(&tcx.def_path_str(*trait_did)), targs.join(","), esc(&format!("{}", tr.self_ty())),
                    preds.join(","), assoc.join(","), items.join(","), esc(&format!("{:?}", tcx.impl_polarity(idid))), esc(&f), l
                );
            }
        }
        out.push_str("],\"adts\":[");
        let mut first = true;
        for id in tcx.hir_free_items() {
            let did = id.owner_id.to_def_id();
            let k = tcx.def_kind(did);
            if matches!(k, DefKind::Struct | DefKind::Enum | DefKind::Union) {
                let adt = tcx.adt_def(did);
                if !first {
                    out.push(',');
                }
                first = false;
                let dtor = tcx.adt_destructor(did).map(|d| esc(&tcx.def_path_str(d.did))).unwrap_or("null".into());
                let mut vs = Vec::new();
                for v in adt.variants() {
                    let fs: Vec<String> = v
                        .fields
                        .iter()
                        .map(|f| format!("{{\"name\":{},\"ty\":{}}}", esc(f.name.as_str()), esc(&format!("{}", tcx.type_of(f.did).instantiate_identity().skip_norm_wip()))))
                        .collect();
                    vs.push(format!("{{\"name\":{},\"fields\":[{}]}}", esc(v.name.as_str()), fs.join(",")));
                }
                let _ = write!(out, "{{\"path\":{},\"kind\":{},\"drop\":{},\"variants\":[{}]}}", esc(&tcx.def_path_str(did)), esc(&format!("{:?}", k)), dtor, vs.join(","));
            } else if matches!(k, DefKind::Static { .. }) {
                let t = tcx.type_of(did).instantiate_identity().skip_norm_wip();
                if !first {
                    out.push(',');
                }
                first = false;
                let mutable = matches!(k, DefKind::Static { mutability: rustc_hir::Mutability::Mut, .. });
                let _ = write!(out, "{{\"static\":{},\"ty\":{},\"interior_mut\":{},\"mutable\":{}}}", esc(&tcx.def_path_str(did)), esc(&format!("{}", t)), ty_has_interior_mut(tcx, t), mutable);
            }
        }
        out.push_str("]}");
        let dir = std::env::var("FACTS_OUT").unwrap_or_else(|_| "/tmp".into());
        std::fs::write(format!("{}/{}.facts.json", dir, krate), out).unwrap();
        eprintln!("FACTS crate={} bodies={}", krate, n);
        Compilation::Continue
    }
}

fn main() {
    let mut args: Vec<String> = std::env::args().collect();
    args.remove(1);
    rustc_driver::run_compiler(&args, &mut Cb);
}
