//! Matcher control for the zero-count rules (C20): one deliberate instance of every construct the
//! rules look for.  Analysed by the fact driver on every run; never executed.
use std::collections::{HashMap, HashSet};
use std::sync::atomic::AtomicUsize;

pub static COUNTER: AtomicUsize = AtomicUsize::new(0);
pub static mut LEGACY: u32 = 0;

pub fn hash_iter(m: &HashMap<u32, u32>) -> u32 {
    let mut s = 0;
    for (k, v) in m.iter() {
        s += k * 31 + v;
    }
    s
}
pub fn hash_into_iter(m: HashSet<u32>) -> Vec<u32> {
    m.into_iter().collect()
}
pub fn hash_handed_over(m: HashSet<u32>, out: &mut Vec<u32>) {
    out.extend(m);
}
pub fn hash_keys(m: &HashMap<u32, u32>) -> Vec<u32> {
    m.keys().copied().collect()
}
pub fn hash_for_loop(m: &HashMap<u32, u32>) -> u32 {
    let mut s = 0;
    for (k, _) in m {
        s = s * 3 + k;
    }
    s
}
pub fn addr_cast(x: &u32) -> usize {
    x as *const u32 as usize
}
pub fn addr_method(x: &u32) -> usize {
    (x as *const u32).addr()
}
pub fn addr_fmt(x: &u32) -> String {
    format!("{:p}", x)
}
pub fn time_now() -> std::time::Instant {
    std::time::Instant::now()
}
pub fn wall_clock() -> std::time::SystemTime {
    std::time::SystemTime::now()
}
pub fn thread_identity() -> std::thread::ThreadId {
    std::thread::current().id()
}
pub fn environment() -> Option<String> {
    std::env::var("HOME").ok()
}
pub fn pid() -> u32 {
    std::process::id()
}
pub fn random_state() -> std::collections::hash_map::RandomState {
    std::collections::hash_map::RandomState::new()
}
