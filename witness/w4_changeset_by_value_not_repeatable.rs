//@ expect: E0277 RepeatableLendGet
//@ twin: w4_twin_changeset_ref_get
// Consuming a change set hands every accumulated amount out by value exactly once: looking the same entity up twice must not type-check.
use specs::prelude::*;
use specs::changeset::ChangeSet;
pub fn f(cs: ChangeSet<i32>, e: Entity, ents: &Entities) {
    let mut it = LendJoin::lend_join(cs);
    let _a = it.get(e, ents);
    let _b = it.get(e, ents);
}
