//@ expect: ok
use specs::prelude::*;
pub fn f(e: Entities) -> Entity {
    let r: &specs::world::EntitiesRes = &*e;
    r.create()
}
