//@ expect: E0616 mask
//@ realname: mask storage::MaskedStorage
//@ twin: w10_twin_unprotected_in_unsafe
use specs::prelude::*;
use specs::storage::MaskedStorage;
pub struct Pos(pub f32);
impl Component for Pos { type Storage = VecStorage<Self>; }
pub fn f(m: &mut MaskedStorage<Pos>) {
    let _ = &mut m.mask;
}
