//@ expect: E0277 RepeatableLendGet
//@ twin: w4_twin_maybe_changeset_ref_get
// Wrapping the consuming join in `maybe()` (or in a tuple) must not make it repeat-gettable: the wrapper is repeatable only if its member is.
use specs::prelude::*;
use specs::changeset::ChangeSet;
pub fn f(cs: ChangeSet<i32>, e: Entity, ents: &Entities) {
    let mut it = LendJoin::lend_join(LendJoin::maybe(cs));
    let _a = it.get(e, ents);
    let _b = it.get(e, ents);
}
