//@ expect: E0277 Join
//@ config: F
//@ twin: w5_twin_write_storage_mutates
// A storage fetched with a READ declaration cannot be joined mutably: the dispatcher stages such a system next to other readers.
// (fully qualified: `(&mut s).join()` would auto-deref to the shared join of `&Storage`)
use specs::prelude::*;
pub struct Pos(pub f32);
impl Component for Pos { type Storage = VecStorage<Self>; }
pub fn f(mut s: ReadStorage<Pos>) {
    let _ = Join::join(&mut s);
}
