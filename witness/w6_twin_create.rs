//@ expect: ok
// Control for the W6 family: handles are obtained from the world.
use specs::prelude::*;
pub fn f(world: &mut World) -> Entity {
    let e: Entity = world.create_entity().build();
    let _g: specs::world::Generation = e.gen();
    e
}
