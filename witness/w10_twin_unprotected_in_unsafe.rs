//@ expect: ok
use specs::prelude::*;
pub struct Pos(pub f32);
impl Component for Pos { type Storage = VecStorage<Self>; }
pub fn f(mut s: WriteStorage<Pos>) {
    let _ = unsafe { s.unprotected_storage_mut() };
}
