//@ expect: E0599 get_other
//@ twin: w3_twin_exclusive_get_other
// The shared-mutable item handed out by join()/par_join() has no other-entity lookup (it could alias another worker's item).
use specs::prelude::*;
pub struct Pos(pub f32);
impl Component for Pos { type Storage = VecStorage<Self>; }
pub fn f(mut pos: WriteStorage<Pos>, other: Entity) {
    let mut r = pos.restrict_mut();
    for mut item in Join::join(&mut r) {
        let _ = item.get_mut();
        let _ = item.get_other(other);
    }
}
