//@ expect: ok
//@ config: F
use specs::prelude::*;
pub struct Pos(pub f32);
impl Component for Pos { type Storage = FlaggedStorage<Self, VecStorage<Self>>; }
pub fn f(mut s: WriteStorage<Pos>, e: Entity) {
    let _ = s.insert(e, Pos(0.0));
    let _ = s.get_mut(e);
    let _ = s.remove(e);
    let _ = s.entry(e);
    let _ = s.restrict_mut();
    let _ = s.channel_mut();
    let _ = s.drain();
    s.clear();
}
pub struct Vel(pub f32);
impl Component for Vel { type Storage = VecStorage<Self>; }
pub fn g(mut s: WriteStorage<Vel>) {
    let _ = s.as_mut_slice();
}
pub fn h(mut s: WriteStorage<Vel>) {
    { let _ = Join::join(&mut s); }
    { let _ = LendJoin::lend_join(&mut s); }
    { let _ = ParJoin::par_join(&mut s); }
}
