//@ expect: E0599 new
//@ twin: w6_twin_create
// Generation::new is cfg(test) only; a generation can only be read from a handle.
use specs::prelude::*;
pub fn f(world: &mut World) -> Entity {
    let e: Entity = world.create_entity().build();
    let _g: specs::world::Generation = specs::world::Generation::new(3);
    e
}
