//@ expect: E0277 Sync
//@ twin: w13_twin_sync_component
// A component with interior mutability (Send but not Sync) must not be storable: every built-in storage is Sync only if its component is
// (the bound sits on `unsafe impl Sync for SyncUnsafeCell<T>`; seed C11-k1 relaxed it to `T: Send`, so two ReadStorage systems could write).
use specs::prelude::*;
use specs::storage::{BTreeStorage, DefaultVecStorage};
#[derive(Default)]
pub struct Pos(pub std::cell::Cell<u32>);
impl Component for Pos { type Storage = VecStorage<Self>; }
