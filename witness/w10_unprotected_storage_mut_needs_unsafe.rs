//@ expect: E0133 unsafe
//@ twin: w10_twin_unprotected_in_unsafe
// Handing out the raw storage mutably bypasses the mask: it is an unsafe fn, so safe user code cannot break the mask discipline.
use specs::prelude::*;
pub struct Pos(pub f32);
impl Component for Pos { type Storage = VecStorage<Self>; }
pub fn f(mut s: WriteStorage<Pos>) {
    let _ = s.unprotected_storage_mut();
}
