//@ expect: E0423 Entity
//@ twin: w6_twin_create
// The fields of Entity are private: the tuple-struct constructor is not callable from outside.
use specs::prelude::*;
pub fn f(world: &mut World) -> Entity {
    let e: Entity = world.create_entity().build();
    let g: specs::world::Generation = e.gen();
    specs::world::Entity(7, g)
}
