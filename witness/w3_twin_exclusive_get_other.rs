//@ expect: ok
// Control: the lending item of a mutable restricted storage has other-entity lookups.
use specs::prelude::*;
pub struct Pos(pub f32);
impl Component for Pos { type Storage = VecStorage<Self>; }
pub fn f(mut pos: WriteStorage<Pos>, other: Entity) {
    let mut r = pos.restrict_mut();
    let mut it = LendJoin::lend_join(&mut r);
    while let Some(mut item) = it.next() {
        let _ = item.get_other(other);
        let _ = item.get_other_mut(other);
    }
}
