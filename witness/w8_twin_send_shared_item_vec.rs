//@ expect: ok
use specs::prelude::*;
pub struct Pos(pub f32);
impl Component for Pos { type Storage = VecStorage<Self>; }
fn assert_send<T: Send>(_: &T) {}
pub fn f(mut pos: WriteStorage<Pos>) {
    let mut r = pos.restrict_mut();
    for item in Join::join(&mut r) {
        assert_send(&item);
    }
}
