//@ expect: ok
use specs::prelude::*;
use specs::storage::DefaultVecStorage;
#[derive(Default)]
pub struct Pos(pub std::sync::atomic::AtomicU32);
impl Component for Pos { type Storage = DefaultVecStorage<Self>; }
pub struct Pos2(pub u32);
impl Component for Pos2 { type Storage = VecStorage<Self>; }
