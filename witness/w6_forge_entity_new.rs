//@ expect: E0599 new
//@ twin: w6_twin_create
// A user cannot construct an entity handle out of thin air: Entity::new is cfg(test) only.
use specs::prelude::*;
pub fn f(world: &mut World) -> Entity {
    let e: Entity = world.create_entity().build();
    let g: specs::world::Generation = e.gen();
    Entity::new(7, g)
}
