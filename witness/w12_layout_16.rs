//@ expect: ok
//@ config: F
//@ extern: serde

// W12: the serialised data layout of an n-tuple of read storages is the layout the same n-tuple of write storages deserialises.
use specs::prelude::*;
use specs::saveload::{DeserializeComponents, SerializeComponents, SimpleMarker};
use std::convert::Infallible;
pub struct Tag;
type M = SimpleMarker<Tag>;
#[derive(Clone, serde::Serialize, serde::Deserialize)] pub struct C0(pub u8);
impl Component for C0 { type Storage = VecStorage<Self>; }
#[derive(Clone, serde::Serialize, serde::Deserialize)] pub struct C1(pub u16);
impl Component for C1 { type Storage = VecStorage<Self>; }
#[derive(Clone, serde::Serialize, serde::Deserialize)] pub struct C2(pub u32);
impl Component for C2 { type Storage = VecStorage<Self>; }
#[derive(Clone, serde::Serialize, serde::Deserialize)] pub struct C3(pub u64);
impl Component for C3 { type Storage = VecStorage<Self>; }
#[derive(Clone, serde::Serialize, serde::Deserialize)] pub struct C4(pub u8);
impl Component for C4 { type Storage = VecStorage<Self>; }
#[derive(Clone, serde::Serialize, serde::Deserialize)] pub struct C5(pub u16);
impl Component for C5 { type Storage = VecStorage<Self>; }
#[derive(Clone, serde::Serialize, serde::Deserialize)] pub struct C6(pub u32);
impl Component for C6 { type Storage = VecStorage<Self>; }
#[derive(Clone, serde::Serialize, serde::Deserialize)] pub struct C7(pub u64);
impl Component for C7 { type Storage = VecStorage<Self>; }
#[derive(Clone, serde::Serialize, serde::Deserialize)] pub struct C8(pub u8);
impl Component for C8 { type Storage = VecStorage<Self>; }
#[derive(Clone, serde::Serialize, serde::Deserialize)] pub struct C9(pub u16);
impl Component for C9 { type Storage = VecStorage<Self>; }
#[derive(Clone, serde::Serialize, serde::Deserialize)] pub struct C10(pub u32);
impl Component for C10 { type Storage = VecStorage<Self>; }
#[derive(Clone, serde::Serialize, serde::Deserialize)] pub struct C11(pub u64);
impl Component for C11 { type Storage = VecStorage<Self>; }
#[derive(Clone, serde::Serialize, serde::Deserialize)] pub struct C12(pub u8);
impl Component for C12 { type Storage = VecStorage<Self>; }
#[derive(Clone, serde::Serialize, serde::Deserialize)] pub struct C13(pub u16);
impl Component for C13 { type Storage = VecStorage<Self>; }
#[derive(Clone, serde::Serialize, serde::Deserialize)] pub struct C14(pub u32);
impl Component for C14 { type Storage = VecStorage<Self>; }
#[derive(Clone, serde::Serialize, serde::Deserialize)] pub struct C15(pub u64);
impl Component for C15 { type Storage = VecStorage<Self>; }
fn same<T>(_: std::marker::PhantomData<T>, _: std::marker::PhantomData<T>) {}
pub fn f() {
    same(
        std::marker::PhantomData::<<(ReadStorage<'static, C0>, ReadStorage<'static, C1>, ReadStorage<'static, C2>, ReadStorage<'static, C3>, ReadStorage<'static, C4>, ReadStorage<'static, C5>, ReadStorage<'static, C6>, ReadStorage<'static, C7>, ReadStorage<'static, C8>, ReadStorage<'static, C9>, ReadStorage<'static, C10>, ReadStorage<'static, C11>, ReadStorage<'static, C12>, ReadStorage<'static, C13>, ReadStorage<'static, C14>, ReadStorage<'static, C15>,) as SerializeComponents<Infallible, M>>::Data>,
        std::marker::PhantomData::<<(WriteStorage<'static, C0>, WriteStorage<'static, C1>, WriteStorage<'static, C2>, WriteStorage<'static, C3>, WriteStorage<'static, C4>, WriteStorage<'static, C5>, WriteStorage<'static, C6>, WriteStorage<'static, C7>, WriteStorage<'static, C8>, WriteStorage<'static, C9>, WriteStorage<'static, C10>, WriteStorage<'static, C11>, WriteStorage<'static, C12>, WriteStorage<'static, C13>, WriteStorage<'static, C14>, WriteStorage<'static, C15>,) as DeserializeComponents<Infallible, M>>::Data>,
    );
}
