//@ expect: E0277 SharedGetMutStorage
//@ twin: w2_twin_lend_join_deref_flagged
// The deferred-flagging storage cannot hand out several mutable accesses at once (they share one channel): only the lending join works.
use specs::prelude::*;
use specs::storage::DerefFlaggedStorage;
pub struct Pos(pub f32);
impl Component for Pos { type Storage = DerefFlaggedStorage<Self, VecStorage<Self>>; }
pub fn f(mut pos: WriteStorage<Pos>) {
    for _p in Join::join(&mut pos) {}
}
