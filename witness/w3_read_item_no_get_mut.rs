//@ expect: E0599 get_mut
//@ twin: w3_twin_exclusive_get_other
// Items of a shared restricted storage cannot fetch mutably at all.
use specs::prelude::*;
pub struct Pos(pub f32);
impl Component for Pos { type Storage = VecStorage<Self>; }
pub fn f(pos: ReadStorage<Pos>) {
    let r = pos.restrict();
    for item in Join::join(&r) {
        let _ = item.get();
        let _ = item.get_mut();
    }
}
