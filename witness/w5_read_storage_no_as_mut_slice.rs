//@ expect: E0599 as_mut_slice
//@ config: F
//@ twin: w5_twin_write_storage_mutates
use specs::prelude::*;
pub struct Vel(pub f32);
impl Component for Vel { type Storage = VecStorage<Self>; }
pub fn g(mut s: ReadStorage<Vel>) {
    let _ = s.as_mut_slice();
}
