//@ expect: E0616 alloc
//@ twin: w9_twin_entities_api
//@ realname: alloc world::entity::EntitiesRes
// The allocator behind the entities resource cannot be reached from outside the crate: all shared-access mutation goes through the atomic API.
use specs::prelude::*;
pub fn f(e: &specs::world::EntitiesRes) -> Entity {
    let x = e.create();
    let _ = &e.alloc;
    x
}
