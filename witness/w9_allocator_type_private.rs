//@ expect: E0603 Allocator
//@ twin: w9_twin_entities_api
use specs::prelude::*;
pub fn f(e: &specs::world::EntitiesRes) -> Entity {
    let x = e.create();
    let _: Option<&specs::world::entity::Allocator> = None;
    x
}
