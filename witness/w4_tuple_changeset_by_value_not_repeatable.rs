//@ expect: E0277 RepeatableLendGet
//@ twin: w4_twin_tuple_changeset_ref_get
use specs::prelude::*;
use specs::changeset::ChangeSet;
pub fn f(cs: ChangeSet<i32>, e: Entity, ents: &Entities) {
    let mut it = LendJoin::lend_join((cs, ents));
    let _a = it.get(e, ents);
    let _b = it.get(e, ents);
}
