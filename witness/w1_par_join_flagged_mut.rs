//@ expect: E0277 DistinctStorage
//@ twin: w1_twin_par_join_vec
// A change-tracking storage pushes to a shared event channel on mutable access: it must not be mutably shared between workers.
use specs::prelude::*;
pub struct Pos(pub f32);
impl Component for Pos { type Storage = FlaggedStorage<Self, VecStorage<Self>>; }
pub fn f(mut pos: WriteStorage<Pos>) {
    let _ = ParJoin::par_join(&mut pos);
}
