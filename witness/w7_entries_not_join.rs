//@ expect: E0277 Join
//@ twin: w7_twin_entries_lend_join
// Entries hands out an entry per index that borrows the storage mutably: it can only be lent, never iterated with items alive together.
use specs::prelude::*;
pub struct Pos(pub f32);
impl Component for Pos { type Storage = VecStorage<Self>; }
pub fn f(mut pos: WriteStorage<Pos>) {
    let it = Join::join(pos.entries());
    for _e in it {}
}
