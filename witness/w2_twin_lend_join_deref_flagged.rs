//@ expect: ok
use specs::prelude::*;
use specs::storage::DerefFlaggedStorage;
pub struct Pos(pub f32);
impl Component for Pos { type Storage = DerefFlaggedStorage<Self, VecStorage<Self>>; }
pub fn f(mut pos: WriteStorage<Pos>) {
    let mut it = LendJoin::lend_join(&mut pos);
    while let Some(_p) = it.next() {}
}
