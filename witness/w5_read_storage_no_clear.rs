//@ expect: E0599 clear
//@ config: F
//@ twin: w5_twin_write_storage_mutates
// A storage fetched with a READ declaration cannot change components or membership.
use specs::prelude::*;
pub struct Pos(pub f32);
impl Component for Pos { type Storage = FlaggedStorage<Self, VecStorage<Self>>; }
pub fn f(mut s: ReadStorage<Pos>, e: Entity) {
    let _ = s.clear();
}
