//@ expect: ok
//@ config: F
//@ extern: serde

// W12: the serialised data layout of an n-tuple of read storages is the layout the same n-tuple of write storages deserialises.
use specs::prelude::*;
use specs::saveload::{DeserializeComponents, SerializeComponents, SimpleMarker};
use std::convert::Infallible;
pub struct Tag;
type M = SimpleMarker<Tag>;
#[derive(Clone, serde::Serialize, serde::Deserialize)] pub struct C0(pub u8);
impl Component for C0 { type Storage = VecStorage<Self>; }
#[derive(Clone, serde::Serialize, serde::Deserialize)] pub struct C1(pub u16);
impl Component for C1 { type Storage = VecStorage<Self>; }
#[derive(Clone, serde::Serialize, serde::Deserialize)] pub struct C2(pub u32);
impl Component for C2 { type Storage = VecStorage<Self>; }
#[derive(Clone, serde::Serialize, serde::Deserialize)] pub struct C3(pub u64);
impl Component for C3 { type Storage = VecStorage<Self>; }
#[derive(Clone, serde::Serialize, serde::Deserialize)] pub struct C4(pub u8);
impl Component for C4 { type Storage = VecStorage<Self>; }
#[derive(Clone, serde::Serialize, serde::Deserialize)] pub struct C5(pub u16);
impl Component for C5 { type Storage = VecStorage<Self>; }
#[derive(Clone, serde::Serialize, serde::Deserialize)] pub struct C6(pub u32);
impl Component for C6 { type Storage = VecStorage<Self>; }
#[derive(Clone, serde::Serialize, serde::Deserialize)] pub struct C7(pub u64);
impl Component for C7 { type Storage = VecStorage<Self>; }
fn same<T>(_: std::marker::PhantomData<T>, _: std::marker::PhantomData<T>) {}
pub fn f() {
    same(
        std::marker::PhantomData::<<(ReadStorage<'static, C0>, ReadStorage<'static, C1>, ReadStorage<'static, C2>, ReadStorage<'static, C3>, ReadStorage<'static, C4>, ReadStorage<'static, C5>, ReadStorage<'static, C6>, ReadStorage<'static, C7>,) as SerializeComponents<Infallible, M>>::Data>,
        std::marker::PhantomData::<<(WriteStorage<'static, C0>, WriteStorage<'static, C1>, WriteStorage<'static, C2>, WriteStorage<'static, C3>, WriteStorage<'static, C4>, WriteStorage<'static, C5>, WriteStorage<'static, C6>, WriteStorage<'static, C7>,) as DeserializeComponents<Infallible, M>>::Data>,
    );
}
