//@ expect: ok
use specs::prelude::*;
pub struct Pos(pub f32);
impl Component for Pos { type Storage = VecStorage<Self>; }
pub fn f(mut pos: WriteStorage<Pos>) {
    let _ = ParJoin::par_join(&mut pos);
}
