//@ expect: E0277 DistinctStorage
//@ twin: w8_twin_send_shared_item_vec
// The shared-mutable restricted item over a tracked storage must not cross threads.
use specs::prelude::*;
pub struct Pos(pub f32);
impl Component for Pos { type Storage = FlaggedStorage<Self, VecStorage<Self>>; }
fn assert_send<T: Send>(_: &T) {}
pub fn f(mut pos: WriteStorage<Pos>) {
    let mut r = pos.restrict_mut();
    for item in Join::join(&mut r) {
        assert_send(&item);
    }
}
