//@ expect: ok
use specs::prelude::*;
pub fn f(e: &specs::world::EntitiesRes) -> Entity {
    let x = e.create();
    let _ = e.delete(x);
    let _ = e.is_alive(x);
    x
}
