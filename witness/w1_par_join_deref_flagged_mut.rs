//@ expect: E0277 SharedGetMutStorage
//@ twin: w1_twin_par_join_vec
use specs::prelude::*;
use specs::storage::DerefFlaggedStorage;
pub struct Pos(pub f32);
impl Component for Pos { type Storage = DerefFlaggedStorage<Self, VecStorage<Self>>; }
pub fn f(mut pos: WriteStorage<Pos>) {
    let _ = ParJoin::par_join(&mut pos);
}
