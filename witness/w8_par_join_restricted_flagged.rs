//@ expect: E0277 DistinctStorage
//@ twin: w1_twin_par_join_vec
use specs::prelude::*;
pub struct Pos(pub f32);
impl Component for Pos { type Storage = FlaggedStorage<Self, VecStorage<Self>>; }
pub fn f(mut pos: WriteStorage<Pos>) {
    let mut r = pos.restrict_mut();
    let _ = ParJoin::par_join(&mut r);
}
