//@ expect: E0596 mutable
//@ twin: w5_twin_entities_shared
// The entities resource is a shared read in system data: it cannot be borrowed mutably (all mutation goes through atomics).
use specs::prelude::*;
pub fn f(mut e: Entities) -> Entity {
    let r: &mut specs::world::EntitiesRes = &mut *e;
    r.create()
}
