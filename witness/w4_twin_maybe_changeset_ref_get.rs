//@ expect: ok
use specs::prelude::*;
use specs::changeset::ChangeSet;
pub fn f(cs: &ChangeSet<i32>, e: Entity, ents: &Entities) {
    let mut it = LendJoin::lend_join(LendJoin::maybe(cs));
    let _a = it.get(e, ents);
    let _b = it.get(e, ents);
}
