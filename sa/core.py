"""Analysis primitives over the MIR fact files (DESIGN.md 2.2, P1-P5).

Everything a rule pack does is built from what is in this file:
  Facts   - indexed fact file (bodies, impls, adts), call graph, who-calls
  Body    - CFG views (normal / +unwind), constant propagation of drop flags,
            reachability with deleted edges, dominators, must-pass-through,
            value-origin tracing, guard-edge discovery
"""
import collections
import json
import os
import re

RET = ("return",)
FLOW = os.environ.get("VERIF_FLOW", "1") == "1"
ENTITY_ID = "<entity.id>"
INFEASIBLE = ("infeasible",)    # origin of a place that cannot hold a value on the paths considered (e.g. Some-payload of a None)


def const_bool(o):
    """True / False when the operand is a boolean constant, else None"""
    if isinstance(o, dict) and o.get("ty") == "bool" and "const" in o:
        c = o["const"].replace("const ", "")
        return True if c == "true" else False if c == "false" else None
    return None


def rv_const_bool(rv):
    return const_bool(rv["ops"][0]) if rv["k"] == "use" and rv["ops"] else None


def op_place(o):
    if isinstance(o, dict):
        return o.get("copy") or o.get("move")
    return None


def projnames(proj):
    """Normalised projection: field / variant names only; derefs are transparent."""
    out = []
    for e in proj:
        if e == "deref":
            continue
        if isinstance(e, dict):
            if "field" in e:
                if e.get("of") == "world::entity::Entity" and e.get("idx") == 0:
                    out.append(ENTITY_ID)  # reading `.0` of an Entity == Entity::id()
                else:
                    out.append(e["field"])
            elif "downcast" in e:
                out.append("as " + e["downcast"])
            elif "index" in e:
                out.append("[]")
            else:
                out.append(json.dumps(e, sort_keys=True))
        else:
            out.append("[]" if str(e).startswith(("ConstantIndex", "Subslice")) else str(e))
    return tuple(out)


def strip_ref(ty):
    """&'a mut X -> X"""
    while True:
        m = re.match(r"^&('[\w]+ )?(mut )?", ty)
        if not m or not m.group(0):
            return ty
        ty = ty[m.end():]


def base_ty(ty):
    """path of an ADT type without its trailing generic arguments
    (`a::B<X>::f::G<'_, T>` -> `a::B<X>::f::G`)"""
    ty = strip_ref(ty).strip()
    if ty.endswith(">"):
        depth = 0
        for i in range(len(ty) - 1, -1, -1):
            c = ty[i]
            if c == ">":
                # `->` inside fn pointer types never ends a type we care about
                depth += 1
            elif c == "<":
                depth -= 1
                if depth == 0:
                    return ty[:i].rstrip(":")
    return ty


def generic_args(ty):
    """top-level generic arguments of the trailing `<..>` group"""
    ty = strip_ref(ty).strip()
    b = base_ty(ty)
    if b == ty:
        return []
    inner = ty[len(b):].lstrip(":")[1:-1]
    out, depth, cur = [], 0, ""
    for c in inner:
        if c in "<([":
            depth += 1
        elif c in ">)]":
            depth -= 1
        if c == "," and depth == 0:
            out.append(cur.strip())
            cur = ""
        else:
            cur += c
    if cur.strip():
        out.append(cur.strip())
    return out


def extend_org(org, rest):
    rest = tuple(rest)
    if not rest:
        return org
    if org[0] == "param":
        return ("param", org[1], org[2] + rest)
    if org[0] == "call":
        return ("call", org[1], org[2] + rest)
    if org[0] == "agg":
        return ("agg", org[1], org[2], org[3] + rest)
    return ("unknown", "proj of %s" % org[0])


class Body:
    def __init__(self, d, facts):
        self.d = d
        self.facts = facts
        self.path = d["path"]
        self.name = d.get("name") or ""
        self.kind = d["kind"]
        self.argc = d["argc"]
        self.file = d["file"]
        self.line = d["line"]
        self.unsafe = d["unsafe"]
        self.impl = d.get("impl")
        self.trait_item = d.get("trait_item")
        self.self_ty = d.get("self_ty")
        self.parent = d.get("parent")
        self.vis = d.get("vis")
        self.blocks = {b["id"]: b for b in d["blocks"]}
        self.ltype = {l["id"]: l["ty"] for l in d["locals"]}
        self._defs = None
        self._cp = {}
        self._dom = {}
        self._org_cache = {}

    def __repr__(self):
        return "<Body %s>" % self.path

    # ---------------------------------------------------------------- basic
    def term(self, bb):
        return self.blocks[bb]["term"]

    def loc(self, bb=None, line=None):
        file = self.file
        if bb is not None:
            file = self.term(bb).get("file") or file
        if line is None:
            line = self.term(bb)["line"] if bb is not None else self.line
        return "%s:%d" % (file, line or 0)

    def site(self, bb):
        """identity of the source construct a block stands for: copies of one block made by inlining / path splitting share it"""
        blk = self.blocks[bb]
        return (blk.get("src") or self.path, tuple(blk.get("stack") or ()), blk.get("orig", bb))

    def ordinals(self, bbs):
        """bb -> ordinal of its site among the given blocks (copies of the same site get the same ordinal)"""
        sites = sorted({self.site(bb) for bb in bbs}, key=lambda s: (s[0] != self.path, s[0], s[1], s[2]))
        return {bb: sites.index(self.site(bb)) for bb in bbs}

    def src(self, bb):
        """path of the function whose source this block was copied from (the body itself unless inlined)"""
        return self.blocks[bb].get("src") or self.path

    def real_calls(self):
        for bid, t in self.calls():
            if not t.get("ghost"):
                yield bid, t

    def calls(self):
        for bid, blk in self.blocks.items():
            t = blk["term"]
            if t["k"] == "call":
                yield bid, t

    def callee(self, bb):
        t = self.term(bb)
        return t["callee"] if t["k"] == "call" else None

    def returns(self):
        return [b for b, blk in self.blocks.items() if blk["term"]["k"] == "return"]

    def dbg_name(self, local):
        for k in self.d.get("dbg", {}):
            n, _, l = k.rpartition("#")
            if int(l) == local and not self.d["dbg"][k]["proj"]:
                return n
        return None

    # ------------------------------------------------------------------ CFG
    def raw_succs(self, bb, unwind=False):
        t = self.blocks[bb]["term"]
        k = t["k"]
        out = []
        if k in ("call", "drop", "assert", "goto"):
            if t.get("target") is not None:
                out.append(t["target"])
            if unwind and isinstance(t.get("unwind"), int):
                out.append(t["unwind"])
        elif k == "switch":
            for _, b in t["targets"]:
                if b not in out:
                    out.append(b)
            if t["otherwise"] not in out:
                out.append(t["otherwise"])
        elif k == "other":
            pass
        return out

    def flag_locals(self):
        """locals that are only ever assigned boolean constants (drop flags, cfg!())"""
        ok = {}
        for blk in self.blocks.values():
            for s in blk["stmts"]:
                l = s["dst"]["local"]
                if s["dst"]["proj"]:
                    ok[l] = False
                    continue
                rv = s["rv"]
                is_c = rv_const_bool(rv) is not None
                ok[l] = ok.get(l, True) and is_c
            t = blk["term"]
            if t["k"] == "call":
                ok[t["dst"]["local"]] = False
        # a flag whose address is taken is not a flag
        for blk in self.blocks.values():
            for s in blk["stmts"]:
                rv = s["rv"]
                if rv["k"] in ("ref", "rawptr") and rv["place"]["local"] in ok:
                    ok[rv["place"]["local"]] = False
        return {l for l, v in ok.items() if v and self.ltype.get(l) == "bool" and l > self.argc}

    def constprop(self, unwind):
        """Forward 3-valued constant propagation of flag locals.
        Returns (IN states, feasible edge set)."""
        if unwind in self._cp:
            return self._cp[unwind]
        F = self.flag_locals()
        IN = {0: {}}
        work = [0]
        feas = set()

        def join(a, c):
            out = {}
            for k in set(a) | set(c):
                va, vc = a.get(k), c.get(k)
                if va is None or vc is None:
                    out[k] = "T"  # assigned on one path only: unknown
                else:
                    out[k] = va if va == vc else "T"
            return out

        OUT = {}
        while work:
            n = work.pop()
            blk = self.blocks[n]
            st = dict(IN[n])
            for s in blk["stmts"]:
                l = s["dst"]["local"]
                if l in F and not s["dst"]["proj"]:
                    st[l] = rv_const_bool(s["rv"])
            OUT[n] = st
            t = blk["term"]
            if t["k"] == "switch":
                v = None
                p = op_place(t["discr"])
                if p and not p["proj"] and p["local"] in F and st.get(p["local"]) in (True, False):
                    v = 1 if st[p["local"]] else 0
                elif const_bool(t["discr"]) is not None:
                    v = 1 if const_bool(t["discr"]) else 0
                if v is None:
                    succ = self.raw_succs(n)
                else:
                    tv = {val: b for val, b in t["targets"]}
                    succ = [tv.get(v, t["otherwise"])]
            else:
                succ = self.raw_succs(n, unwind)
            for s in succ:
                feas.add((n, s))
                new = join(IN[s], st) if s in IN else dict(st)
                if s not in IN or IN[s] != new:
                    IN[s] = new
                    work.append(s)
        self._cp[unwind] = (IN, OUT, feas)
        return self._cp[unwind]

    def succs(self, bb, unwind=False):
        _, _, feas = self.constprop(unwind)
        return [s for s in self.raw_succs(bb, unwind) if (bb, s) in feas]

    def reachable(self, start=0, removed=(), unwind=False, stop=()):
        """blocks reachable from start (inclusive) without using removed edges and
        without continuing *through* blocks in stop (stop blocks themselves are reached)"""
        removed = set(removed)
        stop = set(stop)
        starts = [start] if isinstance(start, int) else list(start)
        seen = set(starts)
        st = list(starts)
        while st:
            n = st.pop()
            if n in stop:
                continue
            for s in self.succs(n, unwind):
                if (n, s) in removed or s in seen:
                    continue
                seen.add(s)
                st.append(s)
        return seen

    def without_edges(self, removed):
        """view of this body with the given switch edges (bb, target) deleted: same block ids, so sites can be compared across
        views; used to ask what holds on the paths that leave a match through one particular arm"""
        removed = frozenset(removed)
        cache = self.__dict__.setdefault("_views", {})
        if removed in cache:
            return cache[removed]
        d = dict(self.d)
        blocks = []
        dead = max(self.blocks) + 1
        used_dead = False
        for bid in sorted(self.blocks):
            blk = self.blocks[bid]
            t = blk["term"]
            if t["k"] == "switch" and any(r[0] == bid for r in removed):
                gone = {r[1] for r in removed if r[0] == bid}
                nt = dict(t)
                nt["targets"] = [[v, x] for v, x in t["targets"] if x not in gone]
                if t["otherwise"] in gone:
                    nt["otherwise"] = dead
                    used_dead = True
                blk = dict(blk, term=nt)
            blocks.append(blk)
        if used_dead:
            blocks.append({"id": dead, "cleanup": False, "stmts": [], "term": {"k": "unreachable", "line": 0, "exp": False}})
        d["blocks"] = blocks
        v = Body(d, self.facts)
        v.view_of = self
        cache[removed] = v
        return v

    def live_blocks(self, unwind=False):
        return self.reachable(0, unwind=unwind)

    def find_path(self_, start, goal, removed=(), unwind=False, avoid=()):
        """shortest path start -> goal block avoiding blocks in `avoid` (as intermediate)"""
        removed = set(removed)
        avoid = set(avoid)
        prev = {start: None}
        q = collections.deque([start])
        while q:
            n = q.popleft()
            if n == goal and prev[n] is not None:
                break
            for s in self_.succs(n, unwind):
                if (n, s) in removed or s in prev or (s in avoid and s != goal):
                    continue
                prev[s] = n
                q.append(s)
        if goal not in prev or (goal == start and prev[goal] is None and start != goal):
            return None
        out = []
        n = goal
        while n is not None:
            out.append(n)
            n = prev[n]
        return out[::-1]

    def path_to(self, bb, removed=(), unwind=False):
        return self.find_path(0, bb, removed=removed, unwind=unwind) if bb != 0 else [0]

    def fmt_path(self, blocks):
        return " -> ".join("bb%d@%d" % (b, self.term(b)["line"]) for b in blocks or [])

    def must_pass(self, start, through, goals=None, unwind=False, removed=()):
        """True iff every path from `start` to a goal block (default: returns) passes
        through a block of `through` (start itself counts if in `through`).
        Returns (ok, witness_path)"""
        through = set(through)
        if goals is None:
            goals = self.returns()
        if start in through:
            return True, None
        seen = self.reachable(start, removed=removed, unwind=unwind, stop=through)
        for g in goals:
            if g in seen and g not in through:
                return False, self.find_path(start, g, removed=removed, unwind=unwind, avoid=through) or [start, g]
        return True, None

    def dominators(self, unwind=False):
        if unwind in self._dom:
            return self._dom[unwind]
        live = self.live_blocks(unwind)
        preds = collections.defaultdict(set)
        for n in live:
            for s in self.succs(n, unwind):
                preds[s].add(n)
        dom = {n: set(live) for n in live}
        dom[0] = {0}
        changed = True
        order = sorted(live)
        while changed:
            changed = False
            for n in order:
                if n == 0:
                    continue
                ps = [dom[p] for p in preds[n] if p in dom]
                new = set.intersection(*ps) if ps else set()
                new = new | {n}
                if new != dom[n]:
                    dom[n] = new
                    changed = True
        self._dom[unwind] = dom
        return dom

    def dominates(self, a, b, unwind=False):
        d = self.dominators(unwind)
        return b in d and a in d[b]

    def in_loop(self, bb, unwind=False):
        """is bb on a cycle of the CFG?"""
        for s in self.succs(bb, unwind):
            if bb in self.reachable(s, unwind=unwind):
                return True
        return False

    # -------------------------------------------------------------- origins
    def defs(self):
        """local -> list of (kind, bb, idx, dstproj, payload)"""
        if self._defs is None:
            D = collections.defaultdict(list)
            S = []
            for bid, blk in self.blocks.items():
                for i, s in enumerate(blk["stmts"]):
                    if "deref" in s["dst"]["proj"]:
                        # a store through a pointer is not a definition of the pointer local
                        S.append((bid, i, s["dst"], s["rv"], s.get("line")))
                        continue
                    D[s["dst"]["local"]].append(("stmt", bid, i, projnames(s["dst"]["proj"]), s["rv"], s["dst"]["proj"]))
                t = blk["term"]
                if t["k"] == "call":
                    if "deref" in t["dst"]["proj"]:
                        S.append((bid, -1, t["dst"], t, t["line"]))
                        continue
                    D[t["dst"]["local"]].append(("call", bid, -1, projnames(t["dst"]["proj"]), t, t["dst"]["proj"]))
            self._defs = D
            self._stores = S
        return self._defs

    def stores(self):
        """stores through pointers: (bb, stmt idx, dst place, rvalue-or-call-term, line)"""
        self.defs()
        return self._stores

    def origin(self, place, _depth=0, _seen=None, at=None):
        """Value origin of a place (see module doc of DESIGN 2.2 P3).  Result is a hashable tuple:
           ('param', n, proj) ('call', bb, proj) ('const', text) ('agg', bb, idx, proj)
           ('op', name, (orgs..)) ('discr', org) ('phi', local, (orgs..)) ('unknown', why)"""
        if place is None:
            return ("unknown", "noplace")
        key = (place["local"], json.dumps(place["proj"], sort_keys=True), at)
        if key in self._org_cache:
            return self._org_cache[key]
        r = self._origin(place["local"], list(place["proj"]), _depth, _seen or frozenset(), at)
        if _depth == 0:
            self._org_cache[key] = r
        return r

    def operand_origin(self, o, _depth=0, _seen=None, at=None):
        if _depth == 0 and isinstance(o, dict):
            # operands are persistent objects of the fact structure: memoise on identity
            oc = self.__dict__.setdefault("_opc", {})
            k = (id(o), at)
            r = oc.get(k)
            if r is None:
                r = oc[k] = self._operand_origin(o, 0, _seen, at)
            return r
        return self._operand_origin(o, _depth, _seen, at)

    def _operand_origin(self, o, _depth=0, _seen=None, at=None):
        p = op_place(o)
        if p is None:
            if isinstance(o, dict) and "const" in o:
                if "fn" in o:
                    return ("const", "fn " + o["fn"])
                return ("const", o["const"])
            return ("unknown", "operand")
        return self.origin(p, _depth, _seen, at)

    def end(self, bb):
        """program point of the terminator of bb (for flow-sensitive origins)"""
        return (bb, len(self.blocks[bb]["stmts"]))

    def all_preds(self):
        if getattr(self, "_preds", None) is None:
            P = collections.defaultdict(set)
            for n in self.live_blocks(True):
                for x in self.succs(n, True):
                    P[x].add(n)
            self._preds = P
        return self._preds

    def reaching_defs(self, local, at):
        """definitions of `local` that can be the latest one when control is at program point `at` = (bb, stmt idx):
        (set of (bb, idx) with idx -1 for a call destination, whether the value at function entry can still be there)"""
        key = (local, at)
        rc = getattr(self, "_rd_cache", None)
        if rc is None:
            rc = self._rd_cache = {}
        if key in rc:
            return rc[key]
        D = self.defs().get(local, [])
        by_block = collections.defaultdict(list)
        for d in D:
            by_block[d[1]].append(d)
        out = set()
        entry = False
        seen = set()
        work = [(at[0], at[1], None)]
        while work:
            bb, upto, succ = work.pop()
            killed = False
            ds = by_block.get(bb, [])
            # the call destination is written on the normal edge only
            if upto is None:
                for d in ds:
                    if d[0] == "call" and self.term(bb).get("target") == succ:
                        out.add((bb, -1))
                        if not d[3]:
                            killed = True
                upto = len(self.blocks[bb]["stmts"])
            if killed:
                continue
            for d in sorted((d for d in ds if d[0] == "stmt" and d[2] < upto), key=lambda d: -d[2]):
                out.add((bb, d[2]))
                if not d[3]:
                    killed = True
                    break
            if killed:
                continue
            if bb == 0:
                entry = True
            for p in self.all_preds().get(bb, ()):
                if (p, bb) not in seen:
                    seen.add((p, bb))
                    work.append((p, None, bb))
        rc[key] = (out, entry)
        return rc[key]

    def _origin(self, local, proj, depth, seen, at=None):
        # memoised unless a cycle cut happened somewhere below (then the result depends on the path taken to get here)
        mk = (local, tuple(e if isinstance(e, str) else tuple(sorted(e.items())) for e in proj), at)
        memo = self.__dict__.setdefault("_omemo", {})
        if mk in memo:
            return memo[mk]
        c0 = self.__dict__.get("_cuts", 0)
        r = self._origin1(local, proj, depth, seen, at)
        if self.__dict__.get("_cuts", 0) == c0:
            memo[mk] = r
        return r

    def _origin1(self, local, proj, depth, seen, at=None):
        if depth > 40:
            self._cuts = self.__dict__.get("_cuts", 0) + 1
            return ("unknown", "depth")
        pn = projnames(proj)
        D = self.defs().get(local, [])
        # by-value writes through a projection of a param (rare) are ignored for params
        if 1 <= local <= self.argc and not [d for d in D if not d[3]]:
            return ("param", local, pn)
        if local == 0 and not D:
            return ("unknown", "ret")
        # candidate defs: whole-local defs, or defs whose dst projection is a prefix of ours
        cands = []
        entry_reaches = False
        if at is not None:
            rd, entry_reaches = self.reaching_defs(local, at)
            D = [d for d in D if (d[1], d[2]) in rd]
            if not D and 1 <= local <= self.argc:
                return ("param", local, pn)
        for d in D:
            dp = d[3]
            if len(dp) <= len(pn) and tuple(pn[:len(dp)]) == tuple(dp):
                cands.append(d)
        if not cands:
            # only partial defs that do not cover the requested projection
            return ("unknown", "partial _%d" % local)
        # when both a whole def and more specific partial defs exist, keep all (phi)
        res = []
        if entry_reaches and 1 <= local <= self.argc:
            res.append(("param", local, pn))
        for d in cands:
            kind, bb, idx, dp, payload, rawdp = d
            rest_raw = self._strip_prefix(proj, len(dp))
            k = (local, bb, idx)
            if k in seen:
                self._cuts = self.__dict__.get("_cuts", 0) + 1
                continue
            seen2 = seen | {k}
            at2 = None if at is None else ((bb, idx) if idx >= 0 else self.end(bb))
            if kind == "call":
                tb = self._try_branch(bb, rest_raw)
                if tb is not None:
                    res.append(self._origin(tb["local"], tb["proj"], depth + 1, seen2, at2))
                    continue
                res.append(("call", bb, projnames(rest_raw)))
                continue
            rv = payload
            rk = rv["k"]
            if rk == "use":
                o = rv["ops"][0]
                p = op_place(o)
                if p is None:
                    res.append(self.operand_origin(o, at=at2))
                else:
                    res.append(self._origin(p["local"], list(p["proj"]) + rest_raw, depth + 1, seen2, at2))
            elif rk in ("ref", "rawptr"):
                p = rv["place"]
                res.append(self._origin(p["local"], list(p["proj"]) + rest_raw, depth + 1, seen2, at2))
            elif rk == "cast":
                o = rv["ops"][0]
                p = op_place(o)
                if p is None:
                    res.append(self.operand_origin(o, at=at2))
                elif rv.get("cast", "").startswith(("IntToInt", "PtrToPtr", "PointerCoercion", "Transmute")) or True:
                    res.append(self._origin(p["local"], list(p["proj"]) + rest_raw, depth + 1, seen2, at2))
            elif rk == "aggregate":
                rn = projnames(rest_raw)
                if rn and rn[0].startswith("as ") and rv.get("variant") and rn[0] != "as " + rv["variant"]:
                    res.append(INFEASIBLE)   # the payload of variant A read from a value built as variant B: not a feasible definition
                    continue
                if rn:
                    # select the operand: for ADT aggregates by field name, tuples/closures by position
                    sel = self._agg_select(rv, rest_raw)
                    if sel is not None:
                        o, remaining = sel
                        p = op_place(o)
                        if p is None:
                            res.append(self.operand_origin(o, at=at2))
                        else:
                            res.append(self._origin(p["local"], list(p["proj"]) + remaining, depth + 1, seen2, at2))
                        continue
                res.append(("agg", bb, idx, rn))
            elif rk in ("binop", "unop"):
                res.append(("op", rv["op"], tuple(self.operand_origin(o, depth + 1, seen2, at2) for o in rv["ops"])))
            elif rk == "discriminant":
                p = rv["place"]
                res.append(("discr", self._origin(p["local"], list(p["proj"]), depth + 1, seen2, at2)))
            elif rk == "setdiscr":
                res.append(("agg", bb, idx, projnames(rest_raw)))
            else:
                res.append(("unknown", rk))
        res = [r for r in res if r is not None]
        if res and all(r == INFEASIBLE for r in res):
            return INFEASIBLE
        res = [r for r in res if r != INFEASIBLE]
        uniq = sorted(set(res), key=repr)
        if len(uniq) == 1:
            return uniq[0]
        if not uniq:
            return ("unknown", "cycle _%d" % local)
        return ("phi", local, tuple(uniq))

    def _try_branch(self, bb, rest_raw):
        """`x?`: the Continue payload of Try::branch(x) is the Some / Ok payload of x, the Break payload of a Result its Err payload"""
        t = self.term(bb)
        c = t["callee"]
        if c.get("path") != "std::ops::Try::branch" or not t["args"]:
            return None
        p = op_place(t["args"][0])
        ty = str(t["args"][0].get("ty", ""))
        pn = projnames(rest_raw)
        if p is None or len(pn) < 2:
            return None
        isopt = base_ty(ty).endswith("option::Option")
        isres = base_ty(ty).endswith("result::Result")
        if not (isopt or isres):
            return None
        rest = [e for e in rest_raw if e != "deref"]
        if pn[0] == "as Continue" and pn[1] == "0":
            down = "Some" if isopt else "Ok"
            return {"local": p["local"], "proj": list(p["proj"]) + [{"downcast": down}, {"field": "0", "idx": 0, "of": ""}] + rest[2:]}
        if isres and len(pn) >= 4 and pn[:4] == ("as Break", "0", "as Err", "0"):
            return {"local": p["local"], "proj": list(p["proj"]) + [{"downcast": "Err"}, {"field": "0", "idx": 0, "of": ""}] + rest[4:]}
        return None

    def try_source(self, org):
        """if org is the result of Try::branch(x): (origin of x, is_option) else None"""
        if org[0] == "call" and not org[2]:
            t = self.term(org[1])
            if t["callee"].get("path") == "std::ops::Try::branch" and t["args"]:
                ty = base_ty(str(t["args"][0].get("ty", "")))
                if ty.endswith(("option::Option", "result::Result")):
                    return self.operand_origin(t["args"][0]), ty.endswith("option::Option")
        return None

    @staticmethod
    def _strip_prefix(proj, n_named):
        """drop the first n_named *named* projection elements (and the derefs before them)"""
        out = list(proj)
        k = 0
        while k < n_named and out:
            e = out.pop(0)
            if e == "deref":
                continue
            k += 1
        return out

    def _agg_select(self, rv, rest_raw):
        rest = [e for e in rest_raw]
        # skip leading derefs / downcasts
        i = 0
        while i < len(rest) and (rest[i] == "deref" or (isinstance(rest[i], dict) and "downcast" in rest[i])):
            i += 1
        if i >= len(rest) or not (isinstance(rest[i], dict) and "field" in rest[i]):
            return None
        idx = rest[i].get("idx")
        if idx is None or idx >= len(rv["ops"]):
            return None
        return rv["ops"][idx], rest[i + 1:]

    def roots(self, org, _seen=None, _depth=0):
        """Leaves of the value-dependency graph behind an origin: params (with projection),
        constants, argument-less calls.  Call results depend on all their arguments; a local that
        is passed by `&mut` to later calls also depends on the other arguments of those calls."""
        _seen = _seen if _seen is not None else set()
        if org in _seen or _depth > 25:
            return set()
        _seen.add(org)
        k = org[0]
        if k in ("param", "const", "unknown"):
            return {org}
        out = set()
        if k == "call":
            t = self.term(org[1])
            if not t["args"]:
                out.add(org)
            for a in t["args"]:
                ao = self.operand_origin(a)
                out |= self.roots(ao, _seen, _depth + 1)
            # mutation of this value through &mut in other calls
            base = ("call", org[1], ())
            for bb, aos, muts in self._mut_users().get(base, ()):
                if bb == org[1]:
                    continue
                for ao in aos:
                    if ao != base:
                        out |= self.roots(ao, _seen, _depth + 1)
        elif k == "agg":
            rv = self.blocks[org[1]]["stmts"][org[2]]["rv"]
            for o in rv.get("ops", []):
                out |= self.roots(self.operand_origin(o), _seen, _depth + 1)
        elif k == "op":
            for o in org[2]:
                out |= self.roots(o, _seen, _depth + 1)
        elif k == "discr":
            out |= self.roots(org[1], _seen, _depth + 1)
        elif k == "phi":
            for o in org[2]:
                out |= self.roots(o, _seen, _depth + 1)
        return out

    def _mut_users(self):
        """call result origin -> [(bb, origins of all arguments, ..)] of the calls that take that result by `&mut`"""
        mu = self.__dict__.get("_mu")
        if mu is None:
            mu = collections.defaultdict(list)
            for bb, t2 in self.calls():
                if not t2["args"]:
                    continue
                aos = [self.operand_origin(a) for a in t2["args"]]
                for i, ao in enumerate(aos):
                    if ao[0] == "call" and not ao[2] and isinstance(t2["args"][i], dict) and str(t2["args"][i].get("ty", "")).startswith("&mut"):
                        mu[ao].append((bb, aos, i))
            self._mu = mu
        return mu

    TRANSPARENT = {"std::ops::Deref::deref", "std::ops::DerefMut::deref_mut", "std::borrow::Borrow::borrow",
                   "std::borrow::BorrowMut::borrow_mut", "std::convert::AsRef::as_ref", "std::convert::AsMut::as_mut"}

    def canon(self, org, _d=0):
        """origin with smart-pointer derefs / borrows made transparent: deref(&self.data).mask == self.data.mask"""
        if org[0] == "call" and _d < 10:
            c = self.term(org[1])["callee"]
            if c.get("path") in self.TRANSPARENT:
                inner = self.canon(self.arg_origin(org[1], 0), _d + 1)
                return extend_org(inner, org[2])
        return org

    def deps(self, org):
        """every origin the value depends on (transitive; includes intermediate call results with their projections)"""
        dc = self.__dict__.setdefault("_depc", {})
        r = dc.get(org)
        if r is None:
            seen = set()
            self.roots(org, seen)
            r = dc[org] = frozenset(seen)
        return r

    def depends_on_call(self, org, bb, proj_prefix=()):
        return any(d[0] == "call" and d[1] == bb and d[2][:len(proj_prefix)] == tuple(proj_prefix) for d in self.deps(org))

    # ------------------------------------------------------------- helpers
    def arg_origin(self, bb, i):
        t = self.term(bb)
        if i >= len(t["args"]):
            return ("unknown", "noarg")
        return self.operand_origin(t["args"][i], at=self.end(bb) if FLOW else None)

    def copy_root(self, o, at):
        """follow plain copies/moves (and reads of a component of a value built by one aggregate statement) backwards from
        operand `o` read at program point `at`: returns (local, program point) of the first local that is not just a
        copy of another one, or None when the value is not a whole local"""
        p = op_place(o)
        if p is None:
            return None
        local, proj = p["local"], [e for e in p["proj"] if e != "deref"]
        for _ in range(30):
            rd, entry = self.reaching_defs(local, at)
            if entry or len(rd) != 1:
                break
            bb, idx = next(iter(rd))
            if idx < 0:
                break
            st = self.blocks[bb]["stmts"][idx]
            rv = st["rv"]
            if st["dst"]["proj"]:
                break
            if rv["k"] == "use":
                q = op_place(rv["ops"][0])
                if q is None:
                    break
                local, proj, at = q["local"], [e for e in q["proj"] if e != "deref"] + proj, (bb, idx)
                continue
            if rv["k"] == "aggregate" and proj:
                rest = list(proj)
                if isinstance(rest[0], dict) and "downcast" in rest[0]:
                    if rv.get("variant") != rest[0]["downcast"]:
                        break
                    rest = rest[1:]
                if rest and isinstance(rest[0], dict) and "field" in rest[0] and rest[0].get("idx") is not None and rest[0]["idx"] < len(rv["ops"]):
                    q = op_place(rv["ops"][rest[0]["idx"]])
                    if q is None:
                        break
                    local, proj, at = q["local"], [e for e in q["proj"] if e != "deref"] + rest[1:], (bb, idx)
                    continue
            break
        return (local, at) if not proj else None

    def counts_iterations(self, local, nbb, some_target, use_bbs):
        """Is `local` a counter in step with the loop whose head is the `next()` call in block nbb: initialised to the
        constant 0 outside the loop, incremented by exactly 1 once on every path from the Some-edge back to next(), and
        not incremented on a path that leaves the loop towards a block of use_bbs?  Then at use_bbs it equals the
        number of completed iterations, i.e. the position of the element the loop was left at.  Returns (ok, why)"""
        loop = {x for x in self.reachable(some_target, stop=[nbb]) if nbb in self.reachable(x)}
        incs = []
        for d in self.defs().get(local, []):
            kind, bb, idx, dp, payload, _ = d
            if dp or kind != "stmt":
                return False, "written by a call or field-wise"
            rv = payload
            if rv["k"] == "use" and isinstance(rv["ops"][0], dict) and "const" in rv["ops"][0]:
                if not rv["ops"][0]["const"].replace("const ", "").startswith("0_"):
                    return False, "initialised to %s, not 0" % rv["ops"][0]["const"]
                if bb in loop:
                    return False, "reset inside the loop"
                continue
            src = None
            if rv["k"] == "binop":
                src = rv
            elif rv["k"] == "use":
                q = op_place(rv["ops"][0])
                if q is not None and projnames(q["proj"]) == ("0",):
                    ds = [x for x in self.defs().get(q["local"], []) if x[0] == "stmt" and x[4]["k"] == "binop"]
                    if len(ds) == 1:
                        src = ds[0][4]
            if src is None or src.get("op") not in ("Add", "AddWithOverflow", "AddUnchecked"):
                return False, "assigned something that is not `itself + 1`"
            a, c = src["ops"][0], src["ops"][1]
            pa = op_place(a)
            if pa is None or pa["proj"] or (self.copy_root(a, (bb, idx)) or (None,))[0] != local or not (isinstance(c, dict) and c.get("const", "").replace("const ", "").startswith("1_")):
                return False, "assigned something that is not `itself + 1`"
            incs.append(bb)
        if not incs:
            return False, "never incremented"
        ok, wit = self.must_pass(some_target, incs, goals=[nbb])
        if not ok:
            return False, "an iteration can complete without the increment: %s" % self.fmt_path(wit)
        for i in incs:
            after = set()
            for sx in self.succs(i):
                after |= self.reachable(sx, stop=[nbb])
            if i in after:
                return False, "incremented more than once per iteration"
            hit = [u for u in use_bbs if u in after]
            if hit:
                return False, "the loop can be left after the increment of the current iteration (towards bb%d): the count is then one too high" % hit[0]
        return True, ""

    def receiver_root(self, org, limit=10):
        """what an iterator / view was made from: follow the receiver (argument 0) of the calls that produced it
        (`x.iter().map(f).enumerate()` -> x)"""
        for _ in range(limit):
            if org[0] == "call" and self.term(org[1])["args"]:
                org = self.arg_origin(org[1], 0)
            else:
                break
        return org

    def ret_origins(self, *fields):
        """origins of the returned value (or of component `fields` of it, by tuple/struct position) at each normal return"""
        proj = [{"field": str(f), "idx": f, "of": ""} for f in fields]
        return [self.origin({"local": 0, "proj": proj}, at=self.end(r)) for r in self.returns() if r in self.live_blocks()]

    def call_of(self, org):
        """if origin is the (unprojected or projected) result of a call: (bb, callee, proj)"""
        if org and org[0] == "call":
            return org[1], self.term(org[1])["callee"], org[2]
        return None

    def switch_edges(self):
        """for every switch: (bb, discr origin, {value: target}, otherwise)"""
        out = []
        for bid, blk in self.blocks.items():
            t = blk["term"]
            if t["k"] == "switch":
                out.append((bid, self.operand_origin(t["discr"], at=self.end(bid) if FLOW else None), {v: b for v, b in t["targets"]}, t["otherwise"]))
        return out

    def bool_guard_edges(self, is_guard_call):
        """Edges taken when a boolean predicate call is TRUE / FALSE.
        is_guard_call(bb, term) -> bool selects predicate calls.
        Returns list of dicts {switch, call, true_edge, false_edge}."""
        out = []
        for bid, org, tv, other in self.switch_edges():
            neg = False
            o = org
            while o[0] == "op" and o[1] == "Not":
                neg = not neg
                o = o[2][0]
            if o[0] != "call" or o[2]:
                continue
            cbb = o[1]
            if not is_guard_call(cbb, self.term(cbb)):
                continue
            if set(tv) != {0}:
                continue
            t_edge, f_edge = (bid, other), (bid, tv[0])
            if neg:
                t_edge, f_edge = f_edge, t_edge
            out.append({"switch": bid, "call": cbb, "true_edge": t_edge, "false_edge": f_edge})
        return out

    def variant_edges(self, match_org):
        """Edges of switches on the discriminant of an Option/Result-like value.
        match_org(org_of_scrutinee) -> bool.  Returns list of
        {switch, org, edges: {variant_name: (bb, target)}}; variant names from the scrutinee's type."""
        out = []
        for bid, org, tv, other in self.switch_edges():
            if org[0] != "discr":
                continue
            so = org[1]
            names = self._variant_names_for_switch(bid)
            ts = self.try_source(so)
            if ts is not None and not match_org(so):
                # `x?`: Continue <=> Some/Ok, Break <=> None/Err of x
                so = ts[0]
                names = {0: "Some", 1: "None"} if ts[1] else {0: "Ok", 1: "Err"}
            if not match_org(so):
                continue
            edges = {}
            for v, b in tv.items():
                edges[names.get(v, str(v))] = (bid, b)
            for v, nm in names.items():
                if nm not in edges:
                    edges[nm] = (bid, other)   # variants not listed take the otherwise edge
            edges["_otherwise"] = (bid, other)
            out.append({"switch": bid, "org": so, "edges": edges})
        return out

    def _variant_names_for_switch(self, bid):
        # find the discriminant statement feeding the switch to learn the scrutinee type
        t = self.term(bid)
        p = op_place(t["discr"])
        ty = None
        if p:
            for d in self.defs().get(p["local"], []):
                if d[0] == "stmt" and d[4]["k"] == "discriminant":
                    ty = self.place_ty_guess(d[4]["place"])
        if ty is None:
            return {}
        bt = base_ty(ty)
        if bt.endswith("option::Option"):
            return {0: "None", 1: "Some"}
        if bt.endswith("result::Result"):
            return {0: "Ok", 1: "Err"}
        if bt.endswith("ops::ControlFlow"):
            return {0: "Continue", 1: "Break"}
        adt = self.facts.adt(bt)
        if adt:
            return {i: v["name"] for i, v in enumerate(adt["variants"])}
        return {}

    def place_ty_guess(self, place):
        """type of a place, following tuple / struct fields, derefs and Option / Result payloads as far as the type strings allow"""
        ty = self.ltype.get(place["local"])
        variant = None
        for e in place["proj"]:
            if ty is None:
                return None
            if e == "deref":
                ty = strip_ref(ty)
                if ty.startswith(("std::boxed::Box<", "alloc::boxed::Box<")):
                    ga = generic_args(ty)
                    ty = ga[0] if ga else None
                continue
            if isinstance(e, dict) and "downcast" in e:
                variant = e["downcast"]
                continue
            if isinstance(e, dict) and "field" in e:
                idx = e.get("idx")
                t = strip_ref(ty).strip()
                if t.startswith("(") and t.endswith(")"):
                    parts = generic_args("X<" + t[1:-1] + ">")
                    ty = parts[idx] if idx is not None and idx < len(parts) else None
                else:
                    bt = base_ty(t)
                    ga = generic_args(t)
                    if bt.endswith("option::Option") and variant == "Some" and ga:
                        ty = ga[0]
                    elif bt.endswith("result::Result") and variant in ("Ok", "Err") and len(ga) >= 2:
                        ty = ga[0] if variant == "Ok" else ga[1]
                    else:
                        adt = self.facts.adt(bt)
                        ty = None
                        if adt:
                            vs = [v for v in adt["variants"] if variant is None or v["name"] == variant] or adt["variants"]
                            if idx is not None and idx < len(vs[0]["fields"]):
                                ty = vs[0]["fields"][idx]["ty"]
                variant = None
                continue
            return None
        return strip_ref(ty) if ty is not None else None


class Facts:
    def __init__(self, d):
        self.d = d
        self.config = d.get("config")
        self.bodies = [Body(b, self) for b in d["bodies"]]
        self.all_bodies = self.bodies     # the expanded view (sa/inline.py) drops absorbed helpers from `bodies` but keeps them here
        self.by_path = collections.defaultdict(list)
        for b in self.bodies:
            self.by_path[b.path].append(b)
        self.impls = d["impls"]
        self.adts = {a["path"]: a for a in d["adts"] if "path" in a}
        self.statics = [a for a in d["adts"] if "static" in a]
        self.impl_by_id = {i["id"]: i for i in self.impls}
        # trait method -> list of implementing bodies
        self.impls_of_method = collections.defaultdict(list)
        for b in self.bodies:
            if b.trait_item and b.impl:
                self.impls_of_method[b.trait_item].append(b)
        self._callers = None
        self._closure_site = None

    # ------------------------------------------------------------- lookup
    def body(self, path):
        l = self.by_path.get(path, [])
        return l[0] if len(l) == 1 else None

    def find(self, pred):
        return [b for b in self.bodies if pred(b)]

    def adt(self, base):
        if base in self.adts:
            return self.adts[base]
        for p, a in self.adts.items():
            if p == base or base.endswith("::" + p) or p.endswith("::" + base):
                return a
        return None

    def drop_glue(self, ty, _seen=None):
        """Drop::drop bodies (paths) run when a value of type `ty` is dropped, via the ADT table;
        also returns the set of opaque types (type parameters, foreign types) dropped"""
        _seen = _seen if _seen is not None else set()
        ty = ty.strip()
        if ty in _seen or ty.startswith("&") or ty.startswith("*"):
            return [], set()
        _seen.add(ty)
        a = self.adts.get(base_ty(ty))
        if not a:
            return [], {ty}
        calls, opaque = [], set()
        if a.get("drop"):
            calls.append(a["drop"])
        for v in a["variants"]:
            for f in v["fields"]:
                c2, o2 = self.drop_glue(f["ty"], _seen)
                calls += c2
                opaque |= o2
        return calls, opaque

    def impls_of(self, trait):
        return [i for i in self.impls if i["trait"] == trait]

    def impl_of_body(self, b):
        return self.impl_by_id.get(b.impl)

    def methods_named(self, self_base, name):
        """inherent or trait-impl methods `name` whose impl self type has base path self_base"""
        return [b for b in self.all_bodies if b.name == name and b.self_ty and base_ty(b.self_ty) == self_base]

    # --------------------------------------------------------- call graph
    def targets(self, callee):
        """bodies a call may enter (crate-local).  Trait methods on type parameters fan out
        to every impl of the method in the crate plus the provided default."""
        if "path" not in callee:
            return []
        res = callee.get("resolved")
        if res and res != "<virtual>":
            bs = self.by_path.get(res)
            if bs:
                return bs
        if callee.get("crate") != "specs":
            return []
        bs = self.by_path.get(callee["path"], [])
        if callee.get("trait"):
            # unresolved trait method: every impl + the default body (if any)
            out = list(self.impls_of_method.get(callee["path"], []))
            out += [b for b in bs if b not in out]
            return out
        return bs

    def callers(self):
        """body path -> list of (caller body, bb)"""
        if self._callers is None:
            C = collections.defaultdict(list)
            for b in self.bodies:
                for bb, t in b.calls():
                    for tb in self.targets(t["callee"]):
                        C[tb.path].append((b, bb))
                # closures / fn items passed as values are potential calls of them from this body
                for bid, blk in b.blocks.items():
                    for i, s in enumerate(blk["stmts"]):
                        rv = s["rv"]
                        if rv["k"] == "aggregate" and "closure" in rv:
                            C[rv["closure"]].append((b, bid))
            self._callers = C
        return self._callers

    def closure_site(self, closure_body):
        """(parent body, bb, stmt idx, rvalue) where the closure value is built"""
        if self._closure_site is None:
            S = {}
            for b in self.bodies:
                for bid, blk in b.blocks.items():
                    for i, s in enumerate(blk["stmts"]):
                        rv = s["rv"]
                        if rv["k"] == "aggregate" and "closure" in rv:
                            S[rv["closure"]] = (b, bid, i, rv)
            self._closure_site = S
        return self._closure_site.get(closure_body.path)

    def capture_origin(self, closure_body, k):
        """origin (in the parent body) of capture field k of a closure"""
        site = self.closure_site(closure_body)
        if not site:
            return None, ("unknown", "no closure site")
        parent, bb, i, rv = site
        try:
            k = int(k)
        except ValueError:
            return parent, ("unknown", "capture " + str(k))
        if k >= len(rv["ops"]):
            return parent, ("unknown", "capture idx")
        return parent, parent.operand_origin(rv["ops"][k])

    def root_origin(self, body, org):
        """lift an origin that names a closure capture into the body that built the closure"""
        n = 0
        while body.kind == "Closure" and org[0] == "param" and org[1] == 1 and org[2] and n < 8:
            parent, porg = self.capture_origin(body, org[2][0])
            if parent is None:
                break
            org = extend_org(porg, org[2][1:])
            body = parent
            n += 1
        return body, org

    def reach(self, roots, stop=lambda b: False, edge_filter=None):
        """bodies reachable over the call graph from root bodies (closures built in a body count as called)"""
        seen = {}
        st = []
        for r in roots:
            seen[r.path] = None
            st.append(r)
        while st:
            b = st.pop()
            if stop(b):
                continue
            outs = []
            for bb, t in b.calls():
                if edge_filter and not edge_filter(b, bb, t):
                    continue
                for tb in self.targets(t["callee"]):
                    outs.append((tb, bb))
            for bid, blk in b.blocks.items():
                for s in blk["stmts"]:
                    rv = s["rv"]
                    if rv["k"] == "aggregate" and "closure" in rv:
                        for tb in self.by_path.get(rv["closure"], []):
                            outs.append((tb, bid))
            for tb, bb in outs:
                if tb.path not in seen:
                    seen[tb.path] = (b, bb)
                    st.append(tb)
        return seen

    def chain(self, seen, path):
        """render the call chain that made `path` reachable"""
        out = [path]
        while seen.get(path):
            b, bb = seen[path]
            out.append("%s (%s)" % (b.path, b.loc(bb)))
            path = b.path
        return " <- ".join(out)
