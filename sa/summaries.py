"""Summaries shared by several rule packs: the is_alive predicate class, index sinks,
entity-of-index recovery, mask-test recognition."""
import collections

from .core import ENTITY_ID, base_ty, op_place, rv_const_bool, strip_ref

ENTITY = "world::entity::Entity"
ALIVE_BASE = "world::entity::Allocator::is_alive"

SINK_TRAITS = {
    "storage::UnprotectedStorage": {"get", "get_mut", "insert", "remove", "drop"},
    "storage::SharedGetMutStorage": {"shared_get_mut"},
}


def is_base_sink(c):
    return c.get("trait") in SINK_TRAITS and c.get("name") in SINK_TRAITS[c["trait"]]


def entity_of_index(body, org):
    """If `org` is 'the index of entity x' return the origin of x, else None.
    Index of x = result of Entity::id(x) or a read of field 0 of an Entity-typed place."""
    if org[0] == "call" and not org[2]:
        c = body.term(org[1])["callee"]
        if c.get("path") == "world::entity::Entity::id":
            return body.arg_origin(org[1], 0)
    if org[0] in ("param", "call") and org[-1] and org[-1][-1] == ENTITY_ID:
        return org[:-1] + (org[-1][:-1],)
    if org[0] == "phi":
        xs = {entity_of_index(body, o) for o in org[2]}
        if len(xs) == 1:
            return xs.pop()
    return None


class AliveClass:
    """Predicates that imply `Allocator::is_alive(x)` for their Entity parameter.
    members: def path -> arg index (0-based, in call args) of the entity."""

    def __init__(self, facts):
        self.facts = facts
        self.members = {}
        base = facts.body(ALIVE_BASE)
        if base:
            self.members[ALIVE_BASE] = self._entity_params(base)[0] - 1 if self._entity_params(base) else 1
        changed = True
        while changed:
            changed = False
            for b in facts.bodies:
                if b.path in self.members or b.ltype.get(0) != "bool":
                    continue
                for k in self._entity_params(b):
                    if self._implies_alive(b, k):
                        self.members[b.path] = k - 1
                        changed = True
                        break
        self.positive = {}
        self._find_positive()

    def _find_positive(self):
        """functions that answer Ok / Some only for a live handle: every `Ok(..)` / `Some(..)` they can return is built under an aliveness test of
        their Entity parameter (Storage::insert, Storage::get ..).  The Ok / Some edge of a switch on such a call's result is a guard edge too."""
        self.positive = {}
        for b in self.facts.bodies:
            rt = b.ltype.get(0) or ""
            if not rt.startswith(("std::result::Result<", "std::option::Option<")) or b.kind == "Closure":
                continue
            for k in self._entity_params(b):
                x = ("param", k, ())
                defs0 = b.defs().get(0, [])
                good = bool(defs0)
                npos = 0
                for d in defs0:
                    kind, bb, idx, dp, payload, _ = d
                    if dp or kind != "stmt" or payload.get("k") != "aggregate":
                        good = False
                        break
                    if payload.get("variant") in ("Ok", "Some"):
                        npos += 1
                        ok, edges = self.guarded(b, bb, x)
                        if not ok or not edges:
                            good = False
                            break
                if good and npos:
                    self.positive[b.path] = k - 1
                    break

    def positive_edges(self, body, x_org):
        out = set()
        for bb, t in body.calls():
            c = t["callee"]
            p = c.get("resolved") if c.get("resolved") in self.positive else c.get("path")
            if p in self.positive and len(t["args"]) > self.positive[p] and body.arg_origin(bb, self.positive[p]) == x_org:
                for ve in body.variant_edges(lambda o, bb=bb: o == ("call", bb, ())):
                    for nm in ("Ok", "Some"):
                        if nm in ve["edges"]:
                            out.add(ve["edges"][nm])
        return out

    @staticmethod
    def _entity_params(b):
        return [i for i in range(1, b.argc + 1) if strip_ref(b.ltype[i]) == ENTITY]

    def is_member_call(self, body, bb, x_org):
        """call at bb is `alive-class(.., x, ..)` on the entity with origin x_org"""
        t = body.term(bb)
        if t["k"] != "call":
            return False
        c = t["callee"]
        p = c.get("resolved") if c.get("resolved") in self.members else c.get("path")
        if p not in self.members:
            return False
        return body.arg_origin(bb, self.members[p]) == x_org

    def guard_edges(self, body, x_org):
        return body.bool_guard_edges(lambda bb, t: self.is_member_call(body, bb, x_org))

    def guarded(self, body, site_bb, x_org, unwind=False):
        """site unreachable once the true-edge of every is_alive(x) test is deleted"""
        edges = self.guard_edges(body, x_org)
        removed = {e["true_edge"] for e in edges}
        if getattr(self, "positive", None):
            removed |= self.positive_edges(body, x_org)
        ok = site_bb not in body.reachable(0, removed=removed, unwind=unwind)
        return ok, edges

    def _implies_alive(self, b, k):
        x = ("param", k, ())
        defs0 = b.defs().get(0, [])
        if not defs0:
            return False
        for d in defs0:
            kind, bb, idx, dp, payload, _ = d
            if dp:
                return False
            if kind == "call":
                if self.is_member_call(b, bb, x):
                    continue
                ok, _ = self.guarded(b, bb, x)
                if not ok:
                    return False
                continue
            rv = payload
            if rv_const_bool(rv) is False:
                continue
            ok, _ = self.guarded(b, bb, x)
            if not ok:
                return False
        return True


class IndexSinks:
    """Functions that hand an `Index` parameter (or an index parked in a struct field) to a raw
    component accessor without an aliveness test of their own (field-sensitive fix-point; impl
    methods are lifted to the trait method they implement)."""

    def __init__(self, facts):
        self.facts = facts
        self.sinks = collections.defaultdict(set)    # def path -> set of param locals
        self.field_sinks = set()                     # (adt base path, field name)
        self.why = {}
        self._run()

    def sink_args(self, callee):
        """0-based arg positions of `callee` that are index sinks"""
        if is_base_sink(callee):
            return {1}
        out = set()
        for p in (callee.get("resolved"), callee.get("path")):
            if p and p in self.sinks:
                out |= {x - 1 for x in self.sinks[p]}
        return out

    def _add(self, b, local, why):
        if b.ltype.get(local) != "u32":
            return False
        new = False
        if local not in self.sinks[b.path]:
            self.sinks[b.path].add(local)
            self.why[(b.path, local)] = why
            new = True
        if b.trait_item and b.impl and local not in self.sinks[b.trait_item]:
            self.sinks[b.trait_item].add(local)
            self.why[(b.trait_item, local)] = "lifted from " + b.path
            new = True
        return new

    def _run(self):
        facts = self.facts
        changed = True
        rounds = 0
        while changed and rounds < 20:
            changed = False
            rounds += 1
            for b in facts.bodies:
                for bb, t in b.calls():
                    c = t["callee"]
                    if "path" not in c:
                        continue
                    for ai in self.sink_args(c):
                        if ai >= len(t["args"]):
                            continue
                        o = b.operand_origin(t["args"][ai])
                        for oo in (o[2] if o[0] == "phi" else (o,)):
                            if oo[0] == "param" and not oo[2]:
                                if self._add(b, oo[1], "%s -> %s" % (b.loc(bb), c["path"])):
                                    changed = True
                            elif oo[0] == "param" and oo[2] and oo[2][-1] != ENTITY_ID:
                                adt = base_ty(b.ltype[oo[1]])
                                key = (adt, oo[2][-1])
                                if len(oo[2]) == 1 and key not in self.field_sinks and facts.adt(adt):
                                    self.field_sinks.add(key)
                                    changed = True
                # constructors of item types with a sink field
                for bid, blk in b.blocks.items():
                    for s in blk["stmts"]:
                        rv = s["rv"]
                        if rv["k"] != "aggregate" or "adt" not in rv:
                            continue
                        a = facts.adt(rv["adt"])
                        if not a:
                            continue
                        v = [x for x in a["variants"] if x["name"] == rv["variant"]]
                        if not v:
                            continue
                        for fi, f in enumerate(v[0]["fields"]):
                            if (a["path"], f["name"]) in self.field_sinks and fi < len(rv["ops"]):
                                o = b.operand_origin(rv["ops"][fi])
                                if o[0] == "param" and not o[2]:
                                    if self._add(b, o[1], "%s builds %s.%s" % (b.loc(line=s.get("line")), a["path"], f["name"])):
                                        changed = True

    def field_sink_sites(self, b):
        """aggregate constructions in b that store a value into a sink field: (bb, line, adt, field, operand)"""
        out = []
        for bid, blk in b.blocks.items():
            for s in blk["stmts"]:
                rv = s["rv"]
                if rv["k"] != "aggregate" or "adt" not in rv:
                    continue
                a = self.facts.adt(rv["adt"])
                if not a:
                    continue
                v = [x for x in a["variants"] if x["name"] == rv["variant"]]
                if not v:
                    continue
                for fi, f in enumerate(v[0]["fields"]):
                    if (a["path"], f["name"]) in self.field_sinks and fi < len(rv["ops"]):
                        out.append((bid, s.get("line"), a["path"], f["name"], rv["ops"][fi]))
        return out


def forgotten_guards(facts):
    """ADT paths of rollback guards: types with a Drop impl every construction of which is handed to mem::forget on every
    path to a normal return - their destructor only ever runs while unwinding between the construction and the forget.
    Returns {adt base path: [(body, bb of the construction)]}"""
    out = {}
    allb = getattr(facts, "all_bodies", facts.bodies)
    built = collections.defaultdict(list)
    for b in allb:
        for bid, blk in b.blocks.items():
            for i, st in enumerate(blk["stmts"]):
                rv = st["rv"]
                if rv["k"] == "aggregate" and rv.get("adt") and not st["dst"]["proj"]:
                    a = facts.adts.get(rv["adt"])
                    if a and a.get("drop"):
                        built[rv["adt"]].append((b, bid, i))
    for adt, sites in built.items():
        ok = True
        for b, bid, i in sites:
            forgets = [bb for bb, t in b.calls() if t["callee"].get("path") in ("std::mem::forget", "core::mem::forget")
                       and b.arg_origin(bb, 0) == ("agg", bid, i, ())]
            if not forgets or not b.must_pass(bid, forgets)[0]:
                ok = False
        if ok:
            out[adt] = [(b, bid) for b, bid, i in sites]
    return out
