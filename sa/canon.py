"""Canonical def paths: make the rule packs indifferent to a type, trait or free function being MOVED to another module.

The rule packs name a handful of items by their def path (`world::entity::Allocator`, `storage::MaskedStorage`, ..).  Moving an item to
another module (splitting a file, `mod cache;`) changes its def path although nothing about the program changed.  `canon_table.json` records, for
the tree the packs were written against, every crate-local ADT, trait and free function whose *name* is unique among items of its kind:
name -> canonical path.  When a fact file is loaded, an item of the same kind and name that now lives at another path (and whose canonical
path is no longer occupied) is mapped back: every occurrence of its current path in the fact file is rewritten to the canonical one before the
analyses see it.  Renaming an item is not covered (the names the packs use are the ones the properties' own anchors name).  The rewriting is
recorded in the evidence (`notes`)."""
import json
import os
import re

TABLE = os.path.join(os.path.dirname(os.path.abspath(__file__)), "canon_table.json")
STD_PREFIXES = ("std::", "core::", "alloc::", "hibitset::", "shred::", "shrev::", "rayon::", "crossbeam", "serde::", "hashbrown::", "ahash::", "uuid::", "log::",
                "tuple_utils::", "nougat::", "polonius", "rayon_core::")


def _local(p):
    return bool(p) and not p.startswith(STD_PREFIXES) and not p.startswith("<") and "::" in p and "{" not in p and "_::_serde" not in p


def items_of(d):
    """kind -> set of crate-local item paths present in a fact dict"""
    out = {"adt": set(), "trait": set(), "fn": set()}
    for a in d.get("adts", []):
        if _local(a.get("path")):
            out["adt"].add(a["path"])
    for im in d.get("impls", []):
        t = im.get("trait")
        if t and _local(t):
            out["trait"].add(t)
    for b in d.get("bodies", []):
        if b.get("kind") == "Fn" and _local(b["path"]):
            out["fn"].add(b["path"])
        ti = b.get("trait_item")
        if ti and _local(ti):
            out["trait"].add(ti.rsplit("::", 1)[0])
    return out


def _ctor(ty):
    """outermost type constructor of a type string, lifetimes and references stripped"""
    t = re.sub(r"&('[a-z_]+ )?(mut )?", "", ty.strip())
    return t.split("<", 1)[0].strip()


def struct_fields(d):
    """adt path -> [(field name, type)] for single-variant ADTs (structs)"""
    out = {}
    for a in d.get("adts", []):
        if a.get("kind") == "Struct" and len(a.get("variants", [])) == 1 and _local(a.get("path")):
            out[a["path"]] = [(f["name"], f["ty"]) for f in a["variants"][0]["fields"]]
    return out


def build_table(dicts):
    """table from fact dicts of the reference tree (all configurations)"""
    allk = {"adt": set(), "trait": set(), "fn": set()}
    for d in dicts:
        for k, v in items_of(d).items():
            allk[k] |= v
    table = {}
    for k, paths in allk.items():
        byname = {}
        for p in paths:
            byname.setdefault(p.rsplit("::", 1)[1], []).append(p)
        table[k] = {n: ps[0] for n, ps in sorted(byname.items()) if len(ps) == 1}
    table["fields"] = {d.get("config", "?"): {k: [list(x) for x in v] for k, v in sorted(struct_fields(d).items())} for d in dicts}
    return table


def _match_fields(canon_fl, cur_fl, cur_path, canon_path, partial=False):
    """current field name -> canonical field name when the two field lists are the same up to names: fields whose name is unchanged (and
    whose type constructor agrees) correspond to themselves; the remaining ones correspond one-to-one by type (exact string after replacing
    the type's own path, else by outermost constructor), the type being unique among the remaining fields on both sides.  With
    partial=True the lists may differ in length (some fields moved into a nested private struct): whatever corresponds uniquely is mapped,
    the rest is left alone."""
    if not canon_fl or (len(canon_fl) != len(cur_fl) and not partial):
        return None
    cn = {n: t for n, t in canon_fl}
    un = {n: t for n, t in cur_fl}
    same = {n for n in cn if n in un and _ctor(cn[n]) == _ctor(un[n].replace(cur_path, canon_path))}
    rest_c = [(n, t) for n, t in canon_fl if n not in same]
    rest_u = [(n, t) for n, t in cur_fl if n not in same]
    out = {n: n for n in same}
    if not rest_c:
        return out
    for key in (lambda t: t.replace(cur_path, canon_path), _ctor):
        ck = [key(t) for _, t in rest_c]
        uk = [key(t) for _, t in rest_u]
        if not partial:
            if len(set(ck)) == len(ck) and sorted(ck) == sorted(uk):
                out.update({rest_u[uk.index(k)][0]: rest_c[i][0] for i, k in enumerate(ck)})
                return out
        else:
            got = {}
            for i, k in enumerate(ck):
                if ck.count(k) == 1 and uk.count(k) == 1 and rest_u[uk.index(k)][0] not in cn:
                    got[rest_u[uk.index(k)][0]] = rest_c[i][0]
            if got:
                out.update(got)
                return out
    return out if partial and same else None


def _fields_for(d, table):
    ft = table.get("fields", {})
    return ft.get(d.get("config"), {}) if ft and all(isinstance(v, dict) for v in ft.values()) else ft


def renamed_structs(d, table):
    """private structs that were RENAMED: a struct of the reference tree that is gone, and exactly one struct that is new in the same
    module with the same field types.  current path -> canonical path"""
    cur = struct_fields(d)
    ref = {k: [tuple(x) for x in v] for k, v in _fields_for(d, table).items()}
    known_names = set(table.get("adt", {}).values())
    all_cur_adts = {a["path"] for a in d.get("adts", []) if a.get("path")}
    gone = [p for p in ref if p not in all_cur_adts and p in known_names]
    new = [p for p in cur if p not in ref]
    m = {}
    for g in gone:
        mod = g.rsplit("::", 1)[0]
        cands = [n for n in new if n.rsplit("::", 1)[0] == mod and _match_fields(ref[g], cur[n], n, g) is not None]
        if len(cands) == 1:
            m[cands[0]] = g
    return m


def field_mapping(d, table):
    """(adt path, current field name) -> canonical field name, for structs whose fields were renamed but kept their types"""
    cur = struct_fields(d)
    fm = {}
    for path, canon_fl in _fields_for(d, table).items():
        cl = cur.get(path)
        if not cl:
            continue
        canon_fl = [tuple(x) for x in canon_fl]
        if [n for n, _ in cl] == [n for n, _ in canon_fl]:
            continue
        mm = _match_fields(canon_fl, cl, path, path, partial=True)
        if mm:
            for a, b in mm.items():
                if a != b:
                    fm[(path, a)] = b
    return fm


def rename_fields(node, fm):
    """rewrite field names in projections ({'field','of'}) and in the ADT table, in place"""
    if isinstance(node, dict):
        if "field" in node and "of" in node and (node["of"], node["field"]) in fm:
            node["field"] = fm[(node["of"], node["field"])]
        for v in node.values():
            if isinstance(v, (dict, list)):
                rename_fields(v, fm)
    elif isinstance(node, list):
        for v in node:
            if isinstance(v, (dict, list)):
                rename_fields(v, fm)


def mapping_for(d, table):
    """current path -> canonical path for moved items"""
    cur = items_of(d)
    m = {}
    for k, names in table.items():
        if k == "fields":
            continue
        present = cur[k]
        byname = {}
        for p in present:
            byname.setdefault(p.rsplit("::", 1)[1], []).append(p)
        for n, canon in names.items():
            if canon in present:
                continue
            cands = byname.get(n, [])
            if len(cands) == 1 and cands[0] != canon:
                m[cands[0]] = canon
    return m


def canonicalise_text(text, mapping):
    for cur, canon in sorted(mapping.items(), key=lambda kv: -len(kv[0])):
        text = re.sub(r"(?<![A-Za-z0-9_:])" + re.escape(cur) + r"(?![A-Za-z0-9_])", canon, text)
    return text


ATOMIC_TY = re.compile(r"^std::sync::atomic::Atomic\w*(<.*>)?$")


def atomic_newtypes(d, table):
    """private new-types around a std atomic that the reference tree did not have (`struct CheckedCounter(AtomicUsize)`): path -> atomic type"""
    known = set(table.get("adt", {}).values())
    out = {}
    for path, fl in struct_fields(d).items():
        if path in known or len(fl) != 1:
            continue
        if ATOMIC_TY.match(fl[0][1].strip()):
            out[path] = fl[0][1].strip()
    return out


def alias_types(node, alias, pat):
    """replace the new-type by the atomic it wraps in every TYPE string (never in def paths) and drop projections into it, in place"""
    if isinstance(node, dict):
        if "proj" in node and isinstance(node["proj"], list):
            node["proj"] = [e for e in node["proj"] if not (isinstance(e, dict) and e.get("of") in alias and "field" in e)]
        for k, v in list(node.items()):
            if k in ("ty", "self_ty", "place_ty") and isinstance(v, str):
                node[k] = pat.sub(lambda m: alias[m.group(0)], v)
            elif k == "substs" and isinstance(v, list):
                node[k] = [pat.sub(lambda m: alias[m.group(0)], x) if isinstance(x, str) else x for x in v]
            elif isinstance(v, (dict, list)):
                alias_types(v, alias, pat)
    elif isinstance(node, list):
        for v in node:
            if isinstance(v, (dict, list)):
                alias_types(v, alias, pat)


def load_json(path):
    """json.load with moved items mapped back to their canonical paths; returns (dict, mapping)"""
    with open(path) as fh:
        text = fh.read()
    d = json.loads(text)
    if not os.path.exists(TABLE):
        return d, {}
    table = json.load(open(TABLE))
    m = mapping_for(d, table)
    if m:
        text = canonicalise_text(text, m)
        d = json.loads(text)
    rn = renamed_structs(d, table)
    if rn:
        text = canonicalise_text(text, rn)
        d = json.loads(text)
        m = dict(m, **rn)
    fm = field_mapping(d, table)
    if fm:
        rename_fields(d["bodies"], fm)
        for a in d.get("adts", []):
            for v in a.get("variants", []):
                for f in v.get("fields", []):
                    if (a["path"], f["name"]) in fm:
                        f["name"] = fm[(a["path"], f["name"])]
        m = dict(m, **{"%s.%s" % k: "%s.%s" % (k[0], v) for k, v in fm.items()})
    an = atomic_newtypes(d, table)
    if an:
        pat = re.compile("|".join(r"(?<![A-Za-z0-9_:])" + re.escape(k) + r"(?![A-Za-z0-9_])" for k in sorted(an, key=len, reverse=True)))
        # the (?<!..) guards are evaluated on the whole type string; group(0) is exactly one of the keys
        alias_types(d["bodies"], an, pat)
        alias_types(d.get("impls", []), an, pat)
        for a in d.get("adts", []):
            if a.get("path") in an:
                continue
            for v in a.get("variants", []):
                for f in v.get("fields", []):
                    f["ty"] = pat.sub(lambda mm: an[mm.group(0)], f["ty"])
        m = dict(m, **{"type " + k: v for k, v in an.items()})
    if m:
        d["_canon"] = m
    return d, m
