"""Canonical def paths: make the rule packs indifferent to a type, trait or free function being MOVED to another module.

The rule packs name a handful of items by their def path (`world::entity::Allocator`, `storage::MaskedStorage`, ..).  Moving an item to
another module (splitting a file, `mod cache;`) changes its def path although nothing about the program changed.  `canon_table.json` records, for
the tree the packs were written against, every crate-local ADT, trait and free function whose *name* is unique among items of its kind:
name -> canonical path.  When a fact file is loaded, an item of the same kind and name that now lives at another path (and whose canonical
path is no longer occupied) is mapped back: every occurrence of its current path in the fact file is rewritten to the canonical one before the
analyses see it.  Renaming an item is not covered (the names the packs use are the ones the properties' own anchors name).  The rewriting is
recorded in the evidence (`notes`)."""
import json
import os
import re

TABLE = os.path.join(os.path.dirname(os.path.abspath(__file__)), "canon_table.json")
STD_PREFIXES = ("std::", "core::", "alloc::", "hibitset::", "shred::", "shrev::", "rayon::", "crossbeam", "serde::", "hashbrown::", "ahash::", "uuid::", "log::",
                "tuple_utils::", "nougat::", "polonius", "rayon_core::")


def _local(p):
    return bool(p) and not p.startswith(STD_PREFIXES) and not p.startswith("<") and "::" in p and "{" not in p and "_::_serde" not in p


def items_of(d):
    """kind -> set of crate-local item paths present in a fact dict"""
    out = {"adt": set(), "trait": set(), "fn": set()}
    for a in d.get("adts", []):
        if _local(a["path"]):
            out["adt"].add(a["path"])
    for im in d.get("impls", []):
        t = im.get("trait")
        if t and _local(t):
            out["trait"].add(t)
    for b in d.get("bodies", []):
        if b.get("kind") == "Fn" and _local(b["path"]):
            out["fn"].add(b["path"])
        ti = b.get("trait_item")
        if ti and _local(ti):
            out["trait"].add(ti.rsplit("::", 1)[0])
    return out


def build_table(dicts):
    """table from fact dicts of the reference tree (all configurations)"""
    allk = {"adt": set(), "trait": set(), "fn": set()}
    for d in dicts:
        for k, v in items_of(d).items():
            allk[k] |= v
    table = {}
    for k, paths in allk.items():
        byname = {}
        for p in paths:
            byname.setdefault(p.rsplit("::", 1)[1], []).append(p)
        table[k] = {n: ps[0] for n, ps in sorted(byname.items()) if len(ps) == 1}
    return table


def mapping_for(d, table):
    """current path -> canonical path for moved items"""
    cur = items_of(d)
    m = {}
    for k, names in table.items():
        present = cur[k]
        byname = {}
        for p in present:
            byname.setdefault(p.rsplit("::", 1)[1], []).append(p)
        for n, canon in names.items():
            if canon in present:
                continue
            cands = byname.get(n, [])
            if len(cands) == 1 and cands[0] != canon:
                m[cands[0]] = canon
    return m


def canonicalise_text(text, mapping):
    for cur, canon in sorted(mapping.items(), key=lambda kv: -len(kv[0])):
        text = re.sub(r"(?<![A-Za-z0-9_:])" + re.escape(cur) + r"(?![A-Za-z0-9_])", canon, text)
    return text


def load_json(path):
    """json.load with moved items mapped back to their canonical paths; returns (dict, mapping)"""
    with open(path) as fh:
        text = fh.read()
    d = json.loads(text)
    if not os.path.exists(TABLE):
        return d, {}
    table = json.load(open(TABLE))
    m = mapping_for(d, table)
    if not m:
        return d, {}
    d = json.loads(canonicalise_text(text, m))
    d["_canon"] = m
    return d, m
