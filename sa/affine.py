"""Affine abstract interpretation of small integer step functions (used for the generation counter of C01 / C02).

Nothing is executed.  A body of the *expanded* fact view (sa/inline.py) is walked path by path; every integer is kept as an affine
form a*x + b of ONE symbolic input x (the integer the receiver encodes), booleans as comparisons of such forms with constants, options
as None / Some(v) / "None iff form == 0" (the NonZero constructor), new-type wrappers are transparent.  Branches on comparisons refine an
interval for x (plus excluded points).  The result is a list of outcomes  (interval of x, 'ret' | 'panic' | 'top', returned value,
receiver after the call)  - a piecewise-affine summary of the function, valid for every input in the interval.

Whatever is not understood (an unknown callee, a loop, non-linear arithmetic) becomes Top and the path is reported as 'top': the rule
built on this reports *undetermined* for it, never a violation.  Integer overflow is not modelled (wrapping at the i32 boundary is
named as undecided in the evidence).
"""
import math
import re
from fractions import Fraction

INF = float("inf")
TOP = ("top",)


def aff(a, b):
    return ("aff", a, b)


def is_aff(v):
    return isinstance(v, tuple) and v and v[0] == "aff"


class Interval:
    """integer interval for x with excluded points"""

    def __init__(self, lo=-INF, hi=INF, excl=()):
        self.lo, self.hi, self.excl = lo, hi, frozenset(excl)
        self._norm()

    def _norm(self):
        while self.lo in self.excl:
            self.lo += 1
        while self.hi in self.excl:
            self.hi -= 1
        self.excl = frozenset(e for e in self.excl if self.lo < e < self.hi)

    def empty(self):
        return self.lo > self.hi

    def meet(self, lo=-INF, hi=INF, excl=()):
        return Interval(max(self.lo, lo), min(self.hi, hi), self.excl | frozenset(excl))

    def points(self):
        """finite sample that decides a linear (in)equality on the whole interval: the end points (or a far point for an infinite end)
        and the neighbours of excluded points"""
        if self.empty():
            return []
        ps = set()
        ps.add(self.lo if self.lo != -INF else min(-(10 ** 6), (self.hi if self.hi != INF else 0) - 10 ** 6))
        ps.add(self.hi if self.hi != INF else max(10 ** 6, (self.lo if self.lo != -INF else 0) + 10 ** 6))
        for e in self.excl:
            ps.add(e - 1)
            ps.add(e + 1)
        return sorted(p for p in ps if self.lo <= p <= self.hi and p not in self.excl)

    def __repr__(self):
        s = "[%s, %s]" % ("-inf" if self.lo == -INF else self.lo, "+inf" if self.hi == INF else self.hi)
        if self.excl:
            s += " \\ {%s}" % ", ".join(str(e) for e in sorted(self.excl))
        return s


NEG = {"gt": "le", "le": "gt", "lt": "ge", "ge": "lt", "eq": "ne", "ne": "eq"}
SWAP = {"gt": "lt", "lt": "gt", "ge": "le", "le": "ge", "eq": "eq", "ne": "ne"}


def refine(iv, op, a, b, c):
    """interval of x under  a*x + b  op  c ; returns Interval (possibly empty) or None if a == 0 and the test is constant-true"""
    if a == 0:
        t = {"gt": b > c, "ge": b >= c, "lt": b < c, "le": b <= c, "eq": b == c, "ne": b != c}[op]
        return iv if t else Interval(1, 0)
    q = Fraction(c - b, a)
    if a < 0:
        op = SWAP[op]
    if op == "gt":
        return iv.meet(lo=math.floor(q) + 1)
    if op == "ge":
        return iv.meet(lo=math.ceil(q))
    if op == "lt":
        return iv.meet(hi=math.ceil(q) - 1)
    if op == "le":
        return iv.meet(hi=math.floor(q))
    if op == "eq":
        if q.denominator != 1:
            return Interval(1, 0)
        return iv.meet(lo=int(q), hi=int(q))
    if op == "ne":
        if q.denominator != 1:
            return iv
        return iv.meet(excl=[int(q)])
    raise ValueError(op)


CONST_RE = re.compile(r"^(?:const )?(-?\d+)_(?:[iu](?:8|16|32|64|128|size))$")


def const_val(s):
    s = s.strip()
    m = CONST_RE.match(s)
    if m:
        return aff(0, int(m.group(1)))
    if s in ("true", "const true"):
        return ("bool", True)
    if s in ("false", "const false"):
        return ("bool", False)
    m = re.match(r"^(?:const )?([iu])(8|16|32|64)::(MIN|MAX)$", s)
    if m:
        bits = int(m.group(2))
        if m.group(1) == "i":
            return aff(0, -(2 ** (bits - 1)) if m.group(3) == "MIN" else 2 ** (bits - 1) - 1)
        return aff(0, 0 if m.group(3) == "MIN" else 2 ** bits - 1)
    if s == "()":
        return ("unit",)
    return TOP


PANICS = ("core::panicking::", "std::rt::begin_panic", "core::option::expect_failed", "core::result::unwrap_failed", "std::process::abort")
IDENT_CALLS = ("NonZero::<T>::new_unchecked", "NonZero::<T>::get", "clone::Clone::clone", "convert::Into::into", "convert::From::from",
               "wrapping_neg", "borrow::Borrow::borrow")


class Outcome:
    def __init__(self, iv, kind, ret=None, recv=None, why=""):
        self.iv, self.kind, self.ret, self.recv, self.why = iv, kind, ret, recv, why

    def __repr__(self):
        return "<%s x in %r ret=%r recv=%r %s>" % (self.kind, self.iv, self.ret, self.recv, self.why)


class Interp:
    MAX_STEPS = 4000
    MAX_DEPTH = 6

    def __init__(self, xfacts):
        self.f = xfacts
        self.steps = 0

    # ------------------------------------------------------------------ values
    def read(self, env, place):
        v = env.get(place["local"], TOP)
        for e in place["proj"]:
            v = self.project(v, e)
        return v

    def project(self, v, e):
        if v == TOP:
            return TOP
        if e == "deref":
            return v
        if isinstance(e, dict) and "downcast" in e:
            if v[0] == "some":
                return ("payload", v[1])
            if v[0] in ("nzsome", "nz"):
                return ("payload", v[1])      # the Some arm of the dominating switch already excludes form == 0
            return TOP
        if isinstance(e, dict) and "field" in e:
            if v[0] == "payload":
                return v[1]
            if v[0] == "tuple":
                try:
                    return v[1][int(e["field"])]
                except (ValueError, IndexError):
                    return TOP
            return v            # new-type wrapper: transparent
        return TOP

    def write(self, env, place, val):
        projs = [e for e in place["proj"] if e != "deref"]
        cur = env.get(place["local"], TOP)
        if projs and isinstance(projs[-1], dict) and "field" in projs[-1] and cur != TOP and cur[0] == "tuple" and len(projs) == 1:
            items = list(cur[1])
            try:
                items[int(projs[-1]["field"])] = val
                env[place["local"]] = ("tuple", items)
                return
            except (ValueError, IndexError):
                pass
        if any(isinstance(e, dict) and "downcast" in e for e in projs):
            env[place["local"]] = TOP
            return
        env[place["local"]] = val           # whole value or new-type field

    def operand(self, env, o):
        if isinstance(o, str):
            return const_val(o)
        if "copy" in o:
            return self.read(env, o["copy"])
        if "move" in o:
            return self.read(env, o["move"])
        if "const" in o:
            return const_val(o["const"])
        return TOP

    @staticmethod
    def arith(op, l, r):
        if not (is_aff(l) and is_aff(r)):
            return TOP
        if op == "add":
            return aff(l[1] + r[1], l[2] + r[2])
        if op == "sub":
            return aff(l[1] - r[1], l[2] - r[2])
        if op == "mul":
            if l[1] == 0:
                return aff(r[1] * l[2], r[2] * l[2])
            if r[1] == 0:
                return aff(l[1] * r[2], l[2] * r[2])
        return TOP

    @staticmethod
    def compare(op, l, r):
        if is_aff(l) and is_aff(r):
            a, b = l[1] - r[1], l[2] - r[2]
            if a == 0:
                return ("bool", {"gt": b > 0, "ge": b >= 0, "lt": b < 0, "le": b <= 0, "eq": b == 0, "ne": b != 0}[op])
            return ("cmp", op, a, b, 0)
        if l[0] == "bool" and r[0] == "bool" and op in ("eq", "ne"):
            return ("bool", (l[1] == r[1]) == (op == "eq"))
        return TOP

    def rvalue(self, env, rv):
        k = rv["k"]
        if k == "use":
            return self.operand(env, rv["ops"][0])
        if k in ("ref", "rawptr"):
            return self.read(env, rv["place"])
        if k == "discriminant":
            return ("discr", self.read(env, rv["place"]))
        if k == "cast":
            v = self.operand(env, rv["ops"][0])
            return v if is_aff(v) else TOP
        if k == "aggregate":
            ops = [self.operand(env, o) for o in rv["ops"]]
            adt = rv.get("adt", "")
            if adt.endswith("option::Option"):
                return ("none",) if rv.get("variant") == "None" else ("some", ops[0] if ops else TOP)
            if rv.get("tuple") or (not adt and "closure" not in rv and len(ops) != 1):
                return ("tuple", ops) if ops else ("unit",)
            if "closure" in rv:
                return TOP
            if len(ops) == 1:
                return ops[0]          # new-type wrapper
            return ("tuple", ops)
        if k == "unop":
            v = self.operand(env, rv["ops"][0])
            if rv["op"] == "Neg":
                return aff(-v[1], -v[2]) if is_aff(v) else TOP
            if rv["op"] == "Not":
                if v[0] == "bool":
                    return ("bool", not v[1])
                if v[0] == "cmp":
                    return ("cmp", NEG[v[1]]) + v[2:]
            return TOP
        if k == "binop":
            l, r = [self.operand(env, o) for o in rv["ops"]]
            op = rv["op"]
            base = op.replace("WithOverflow", "").replace("Unchecked", "").lower()
            if base in ("add", "sub", "mul"):
                v = self.arith(base, l, r)
                return ("tuple", [v, ("bool", False)]) if op.endswith("WithOverflow") else v
            if base in ("gt", "ge", "lt", "le", "eq", "ne"):
                return self.compare(base, l, r)
            return TOP
        return TOP

    # ------------------------------------------------------------------ control
    def run(self, body, args, iv, depth=0):
        """interpret `body` with parameter values `args` (list, index 0 = param 1) under x in iv.
        yields (iv, kind, ret, final env) ; kind in ret / panic / top"""
        env0 = {i + 1: a for i, a in enumerate(args)}
        out = []
        work = [(0, env0, iv, {})]
        while work:
            bb, env, iv, seen = work.pop()
            self.steps += 1
            if self.steps > self.MAX_STEPS:
                out.append((iv, "top", None, env, "step bound"))
                continue
            if seen.get(bb, 0) >= 2:
                out.append((iv, "top", None, env, "loop at bb%d" % bb))
                continue
            seen = dict(seen)
            seen[bb] = seen.get(bb, 0) + 1
            env = dict(env)
            blk = body.blocks[bb]
            for s in blk["stmts"]:
                self.write(env, s["dst"], self.rvalue(env, s["rv"]))
            t = blk["term"]
            k = t["k"]
            if k == "return":
                out.append((iv, "ret", env.get(0, ("unit",)), env, ""))
            elif k == "goto":
                work.append((t["target"], env, iv, seen))
            elif k == "assert":
                work.append((t["target"], env, iv, seen))      # overflow / bounds assertion assumed to pass (not modelled)
            elif k == "drop":
                work.append((t["target"], env, iv, seen))
            elif k in ("resume", "unreachable", "abort"):
                out.append((iv, "panic", None, env, k))
            elif k == "switch":
                d = self.operand(env, t["discr"])
                for tgt, iv2 in self.branches(d, t, iv):
                    if tgt == "top":
                        out.append((iv, "top", None, env, "switch on unknown value at bb%d" % bb))
                    elif not iv2.empty():
                        work.append((tgt, env, iv2, seen))
            elif k == "call":
                for tgt_iv, val, kind, why, envpatch in self.call(body, env, t, iv, depth):
                    if kind == "panic" or t["target"] is None:
                        out.append((tgt_iv, "panic", None, env, why))
                        continue
                    if kind == "top" and val is None:
                        out.append((tgt_iv, "top", None, env, why))
                        continue
                    e2 = dict(env)
                    for loc, v in envpatch.items():
                        e2[loc] = v
                    self.write(e2, t["dst"], val)
                    work.append((t["target"], e2, tgt_iv, seen))
            else:
                out.append((iv, "top", None, env, "terminator " + k))
        return out

    def branches(self, d, t, iv):
        """[(target bb | 'top', refined interval)]"""
        tg = t["targets"]
        if d[0] == "bool":
            val = 1 if d[1] else 0
            for v, bb in tg:
                if v == val:
                    return [(bb, iv)]
            return [(t["otherwise"], iv)]
        if d[0] == "cmp":
            _, op, a, b, c = d
            res = []
            tv = refine(iv, op, a, b, c)
            fv = refine(iv, NEG[op], a, b, c)
            fb = [bb for v, bb in tg if v == 0]
            tb = [bb for v, bb in tg if v == 1]
            res.append(((fb[0] if fb else t["otherwise"]), fv))
            res.append(((tb[0] if tb else t["otherwise"]), tv))
            return res
        if d[0] == "discr":
            o = d[1]
            none_bb = [bb for v, bb in tg if v == 0]
            some_bb = [bb for v, bb in tg if v == 1]
            nb = none_bb[0] if none_bb else t["otherwise"]
            sb = some_bb[0] if some_bb else t["otherwise"]
            if o == TOP:
                return [("top", iv)]
            if o[0] == "none":
                return [(nb, iv)]
            if o[0] in ("some", "nzsome"):
                return [(sb, iv)]
            if o[0] == "nz":
                a, b = o[1][1], o[1][2]
                return [(nb, refine(iv, "eq", a, b, 0)), (sb, refine(iv, "ne", a, b, 0))]
            return [("top", iv)]
        if is_aff(d):
            res = []
            rest = iv
            for v, bb in tg:
                res.append((bb, refine(iv, "eq", d[1], d[2], v)))
                rest = refine(rest, "ne", d[1], d[2], v)
            res.append((t["otherwise"], rest))
            return res
        return [("top", iv)]

    def call(self, body, env, t, iv, depth):
        """[(interval, value, kind, why, env patch)]"""
        c = t["callee"]
        path = c.get("resolved") or c.get("path") or ""
        args = [self.operand(env, a) for a in t["args"]]
        if t.get("ghost"):
            return [(iv, ("unit",), "ret", "", {})]
        if any(path.startswith(p) for p in PANICS) or t["target"] is None:
            return [(iv, None, "panic", path, {})]
        name = c.get("name") or path.rsplit("::", 1)[-1]
        # ---- models of std items
        if path.endswith("NonZero::<T>::new") and args:
            a = args[0]
            if is_aff(a):
                if a[1] == 0:
                    return [(iv, ("none",) if a[2] == 0 else ("some", a), "ret", "", {})]
                return [(iv, ("nz", a), "ret", "", {})]
            return [(iv, TOP, "ret", "", {})]
        if any(path.endswith(s) for s in IDENT_CALLS) and args:
            return [(iv, args[0], "ret", "", {})]
        m = re.search(r"::(checked|wrapping|saturating|unchecked|strict)_(add|sub|mul|neg)$", path)
        if m and args:
            if m.group(2) == "neg":
                v = aff(-args[0][1], -args[0][2]) if is_aff(args[0]) else TOP
            else:
                v = self.arith(m.group(2), args[0], args[1]) if len(args) > 1 else TOP
            return [(iv, ("some", v) if m.group(1) == "checked" else v, "ret", "", {})]
        if re.search(r"::(abs|unsigned_abs|wrapping_abs)$", path) and args and is_aff(args[0]):
            a = args[0]
            return [(refine(iv, "ge", a[1], a[2], 0), a, "ret", "", {}), (refine(iv, "lt", a[1], a[2], 0), aff(-a[1], -a[2]), "ret", "", {})]
        if name in ("max", "min") and len(args) == 2 and is_aff(args[0]) and is_aff(args[1]):
            l, r = args
            ge = refine(iv, "ge", l[1] - r[1], l[2] - r[2], 0)
            lt = refine(iv, "lt", l[1] - r[1], l[2] - r[2], 0)
            return [(ge, l if name == "max" else r, "ret", "", {}), (lt, r if name == "max" else l, "ret", "", {})]
        if path.endswith("option::Option::<T>::map") and len(args) == 2:
            # second argument is a fn item (a new-type constructor): transparent.  Closures were desugared by the expansion layer.
            f = t["args"][1]
            if isinstance(f, str) or (isinstance(f, dict) and "const" in f):
                return [(iv, args[0], "ret", "", {})]
            return [(iv, TOP, "ret", "", {})]
        if re.search(r"option::Option::<T>::(unwrap|expect|unwrap_unchecked)$", path) and args:
            return [(i2, v, k2, "unwrap of None", {}) for i2, v, k2 in self.opt_payload(args[0], iv)]
        if path.endswith("option::Option::<T>::unwrap_or") and len(args) == 2:
            res = []
            for i2, v, k2 in self.opt_payload(args[0], iv):
                res.append((i2, v if k2 == "ret" else args[1], "ret" if k2 in ("ret", "panic") else k2, "", {}))
            return res
        if path.endswith("option::Option::<T>::unwrap_or_default") and args:
            return [(i2, v if k2 == "ret" else aff(0, 0), "ret", "", {}) for i2, v, k2 in self.opt_payload(args[0], iv)]
        if re.search(r"option::Option::<T>::is_(some|none)$", path) and args:
            want = path.endswith("is_some")
            return [(i2, ("bool", (k2 == "ret") == want), "ret", "", {}) for i2, v, k2 in self.opt_payload(args[0], iv) if k2 != "top"] or [(iv, TOP, "ret", "", {})]
        # ---- crate-local body
        cands = self.f.by_path.get(path) or []
        if len(cands) == 1 and depth < self.MAX_DEPTH:
            cb = cands[0]
            res = []
            for oiv, kind, ret, cenv, why in self.run(cb, args, iv, depth + 1):
                patch = {}
                if kind != "ret":
                    res.append((oiv, None, kind, why or ("in " + path), {}))
                    continue
                # write-back of `&mut` parameters that were references to caller places
                for i, a in enumerate(t["args"]):
                    pty = cb.ltype.get(i + 1, "")
                    if pty.startswith("&mut") and isinstance(a, dict):
                        pl = a.get("move") or a.get("copy")
                        if pl is not None:
                            src = self.ref_source(body, env, pl)
                            if src is not None:
                                patch[src] = cenv.get(i + 1, TOP)
                res.append((oiv, ret, "ret", "", patch))
            return res
        return [(iv, TOP, "ret", "unknown callee " + path, {})]

    def ref_source(self, body, env, pl):
        """local a `&mut` temporary refers to, if it was created by a `ref` statement of a plain local (best effort)"""
        if pl["proj"]:
            return pl["local"] if all(e == "deref" for e in pl["proj"]) else None
        for blk in body.blocks.values():
            for s in blk["stmts"]:
                if s["dst"]["local"] == pl["local"] and not s["dst"]["proj"] and s["rv"]["k"] == "ref":
                    p = s["rv"]["place"]
                    if all(e == "deref" or (isinstance(e, dict) and "field" in e) for e in p["proj"]):
                        return p["local"]
        return pl["local"]

    @staticmethod
    def opt_payload(o, iv):
        """[(interval, payload, 'ret' | 'panic'(None) | 'top')]"""
        if o == TOP:
            return [(iv, TOP, "top")]
        if o[0] == "none":
            return [(iv, None, "panic")]
        if o[0] in ("some", "nzsome"):
            return [(iv, o[1], "ret")]
        if o[0] == "nz":
            a, b = o[1][1], o[1][2]
            return [(refine(iv, "eq", a, b, 0), None, "panic"), (refine(iv, "ne", a, b, 0), o[1], "ret")]
        return [(iv, TOP, "top")]


def summarise(xfacts, body, recv_kind):
    """piecewise-affine summary of a method whose only input is its receiver.
    recv_kind: 'nonzero' (receiver encodes a non-zero integer x) or 'zeroable' (Option: None iff x == 0)."""
    it = Interp(xfacts)
    x = aff(1, 0)
    if recv_kind == "zeroable":
        recv = ("nz", x)
        iv = Interval()
    else:
        recv = x
        iv = Interval(excl=[0])
    outs = []
    for oiv, kind, ret, env, why in it.run(body, [recv], iv):
        if oiv.empty():
            continue
        r = env.get(1, TOP) if kind == "ret" else None
        outs.append(Outcome(oiv, kind, ret, r, why))
    return outs


def as_int_form(v):
    """integer a value encodes as (list of (extra constraint op/c on the form or None, affine form)), None if not understood.
    Option None encodes 0."""
    if v is None or v == TOP:
        return None
    if is_aff(v):
        return [(None, v)]
    if v[0] == "none":
        return [(None, aff(0, 0))]
    if v[0] in ("some", "nzsome", "payload"):
        return as_int_form(v[1])
    if v[0] == "nz":
        return [(None, v[1])]          # None iff form == 0, and then the encoded integer is 0 = the form's value
    return None


def holds_on(iv, form, op, rhs):
    """does  form(x) op rhs(x)  hold for every x of the interval?  form, rhs affine; op in gt/ge/lt/le/eq.  A linear function is
    monotone, so the finite end points decide; towards an infinite end the slope must not point the wrong way."""
    a, b = form[1] - rhs[1], form[2] - rhs[2]
    if iv.empty():
        return True, None
    test = {"gt": lambda v: v > 0, "ge": lambda v: v >= 0, "lt": lambda v: v < 0, "le": lambda v: v <= 0, "eq": lambda v: v == 0}[op]
    if op == "eq":
        if a != 0 and not (iv.lo == iv.hi):
            return False, iv.lo if iv.lo != -INF else iv.hi
        p = iv.lo if iv.lo != -INF else (iv.hi if iv.hi != INF else 0)
        return (test(a * p + b), p)
    for end, sign in ((iv.lo, -1), (iv.hi, +1)):
        if end in (INF, -INF):
            growth = a * sign            # direction of the form as x runs off to this end
            if op in ("gt", "ge") and growth < 0:
                return False, "x -> %sinf" % ("+" if sign > 0 else "-")
            if op in ("lt", "le") and growth > 0:
                return False, "x -> %sinf" % ("+" if sign > 0 else "-")
            if a == 0 and not test(b):
                return False, 0
        elif not test(a * end + b):
            return False, end
    if iv.lo == -INF and iv.hi == INF and a == 0:
        return test(b), 0
    return True, None
