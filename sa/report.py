"""Check context: obligations, floors, anchors, evidence, VIOLATION / KNOWN-FINDING lines."""
import hashlib
import json
import os
import sys
import time

from . import extract
from .core import Facts

VERIF = extract.VERIF
EVID = os.environ.get("VERIF_EVIDENCE_DIR") or os.path.join(VERIF, "evidence")
REPLAY = os.path.join(EVID, "replay")


class Ctx:
    def __init__(self, pid, tier, seed=0):
        self.pid = pid
        self.tier = tier
        self.seed = seed
        self.t0 = time.time()
        self.obs = {}          # key -> dict(rule, key, where, detail, configs:{cfg: verdict})
        self.order = []
        self.meta_fail = []    # floors / anchors lost
        self.exceptions = []
        self.notes = []
        self.rules = {}
        self.trusted = []
        self.undecided = []
        self._facts = {}
        self.cur_config = None
        self.bodies_analysed = {}
        self.witnesses = []

    # ----------------------------------------------------------------- facts
    def facts(self, config):
        if config not in self._facts:
            d = extract.load(config)
            self._facts[config] = Facts(d)
            self.bodies_analysed[config] = len(d["bodies"])
            if d.get("_canon"):
                self.note("[%s] items found in another module than the rule packs name were mapped back (sa/canon.py): %s" % (
                    config, ", ".join("%s -> %s" % kv for kv in sorted(d["_canon"].items()))))
        self.cur_config = config
        if os.environ.get("VERIF_X") == "1":
            from . import inline
            return inline.xfacts(self._facts[config])
        return self._facts[config]

    def xfacts(self, config):
        """expanded view (bounded inlining of private helpers and closures + path-sensitive splitting), see sa/inline.py"""
        from . import inline
        return inline.xfacts(self.facts(config))

    def facts_dir(self, config):
        self.facts(config)
        return self._facts[config].d["_dir"]

    # ----------------------------------------------------------- recording
    def rule(self, rid, text):
        self.rules[rid] = text

    def ob(self, rule, key, ok, where="", detail="", config=None, nontrivial=True):
        """record one evaluated obligation.  ok: True | False | 'undetermined'"""
        config = config or self.cur_config or "-"
        k = rule + "|" + key
        if k not in self.obs:
            self.obs[k] = {"rule": rule, "key": key, "where": where, "detail": detail, "configs": {}, "nontrivial": nontrivial}
            self.order.append(k)
        o = self.obs[k]
        prev = o["configs"].get(config)
        if prev is False or (prev == "undetermined" and ok is True):
            ok = prev          # a failed / undetermined evaluation of the same instance is never overwritten by a later success
        o["configs"][config] = ok
        if ok is not True and detail:
            o["detail"] = detail
            o["where"] = where or o["where"]
        return ok

    def floor(self, rule, what, count, floor, config=None):
        """fail closed when a role-discovered instance count drops below its floor"""
        config = config or self.cur_config or "-"
        ok = count >= floor
        self.ob(rule, "floor:" + what, ok, "", "%s: found %d, floor %d (config %s)" % (what, count, floor, config), config, nontrivial=False)
        return ok

    def anchor(self, rule, what, found, config=None):
        """hard anchor named by the property: must exist"""
        ok = bool(found)
        self.ob(rule, "anchor:" + what, ok, "", "anchor %s %s" % (what, "found" if ok else "NOT FOUND - the property text no longer describes the code"), config, nontrivial=False)
        return ok

    def exception(self, symbol, reason):
        e = {"symbol": symbol, "reason": reason}
        if e not in self.exceptions:
            self.exceptions.append(e)

    def note(self, s):
        if s not in self.notes:
            self.notes.append(s)

    # ------------------------------------------------------------- finish
    def finish(self, explanation, level_note_undecided, trusted_base):
        known = load_known()
        viol = []
        undet = []
        for k in self.order:
            o = self.obs[k]
            vs = o["configs"].values()
            if any(v is False for v in vs):
                viol.append(o)
            elif any(v == "undetermined" for v in vs):
                undet.append(o)
        n_ob = len(self.order)
        n_ok = sum(1 for k in self.order if all(v is True for v in self.obs[k]["configs"].values()))
        evals = sum(len(self.obs[k]["configs"]) for k in self.order)
        nontriv = sum(1 for k in self.order if self.obs[k]["nontrivial"])
        os.makedirs(REPLAY, exist_ok=True)
        new_viol = 0
        lines = []
        for o in viol:
            fk = {"property": self.pid, "key": o["rule"] + "|" + o["key"]}
            kf = [f for f in known.get("findings", []) if f.get("property") == self.pid and f.get("key") == fk["key"]]
            if kf:
                lines.append("KNOWN-FINDING: property=%s %s" % (self.pid, kf[0].get("what", fk["key"])))
                continue
            new_viol += 1
            h = hashlib.sha1((self.pid + fk["key"]).encode()).hexdigest()[:12]
            rp = os.path.join(REPLAY, "%s-%s.json" % (self.pid, h))
            with open(rp, "w") as fh:
                json.dump({"property": self.pid, "rule": o["rule"], "key": o["key"], "where": o["where"],
                           "detail": o["detail"], "configs": {c: v for c, v in o["configs"].items()},
                           "tier": self.tier, "repo": extract.repo(), "tree": extract.tree_hash()}, fh, indent=1)
            lines.append("  rule %s  instance %s\n    at %s\n    %s\n    configs: %s" % (
                o["rule"], o["key"], o["where"], o["detail"],
                ",".join(c for c, v in o["configs"].items() if v is False)))
            lines.append("VIOLATION property=%s replay=%s" % (self.pid, rp))
        samples = []
        for k in self.order:
            o = self.obs[k]
            if o["nontrivial"]:
                samples.append({"rule": o["rule"], "instance": o["key"], "where": o["where"],
                                "verdict": {c: (v if v is not True else "ok") for c, v in o["configs"].items()}})
        ev = {
            "property_id": self.pid,
            "tier": self.tier,
            "seed": self.seed,
            "level": "other",
            "coverage": {
                "explanation": explanation,
                "rules": self.rules,
                "obligations": n_ob,
                "discharged": n_ok,
                "evaluations": evals,
                "distinct_nontrivial": nontriv,
                "rule": "one obligation per (rule, code site/instance) discovered by role in the MIR facts; "
                        "evaluations counts (obligation x feature configuration); distinct_nontrivial counts the distinct "
                        "obligations tied to a real code site (floors/anchors excluded)",
                "samples": samples[:60],
                "configs": sorted(self.bodies_analysed),
                "bodies_analysed": self.bodies_analysed,
                "undetermined": [{"rule": o["rule"], "instance": o["key"], "where": o["where"], "detail": o["detail"]} for o in undet],
                "exceptions": self.exceptions,
                "witnesses": self.witnesses,
                "notes": self.notes,
                "not_decided": level_note_undecided,
                "trusted_base": trusted_base,
                "tree": extract.tree_hash(),
                "exhaustive": True,
                "checker_cmd": "bin/check %s --tier %s" % (self.pid, self.tier),
            },
            "assumptions": trusted_base,
            "wall_s": round(time.time() - self.t0, 2),
            "violations": new_viol,
        }
        if os.environ.get("VERIF_DUMP_OBS"):
            with open(os.environ["VERIF_DUMP_OBS"], "a") as fh:
                for k in self.order:
                    o = self.obs[k]
                    fh.write("%s\t%s\t%s\n" % (self.pid, k, ",".join("%s=%s" % (c, v) for c, v in sorted(o["configs"].items()))))
        os.makedirs(EVID, exist_ok=True)
        with open(os.path.join(EVID, self.pid + ".json"), "w") as fh:
            json.dump(ev, fh, indent=1)
            fh.write("\n")
        print("%s tier=%s configs=%s obligations=%d discharged=%d undetermined=%d violations=%d wall=%.1fs" % (
            self.pid, self.tier, ",".join(sorted(self.bodies_analysed)), n_ob, n_ok, len(undet), new_viol, time.time() - self.t0))
        for o in undet:
            print("  undetermined: %s %s at %s: %s" % (o["rule"], o["key"], o["where"], o["detail"]))
        for l in lines:
            print(l)
        sys.stdout.flush()
        return 1 if new_viol else 0


def load_known():
    p = os.path.join(VERIF, "known_findings.json")
    try:
        with open(p) as fh:
            return json.load(fh)
    except OSError:
        return {}
