"""Join-trait sibling tables and body abstractions shared by C06, C07, C13, C16."""
import collections
import re

from .core import base_ty, rv_const_bool

JOIN_TRAITS = {"join::Join": "Join", "join::lend_join::LendJoin": "LendJoin", "join::par_join::ParJoin": "ParJoin"}
_JT = re.compile(r"join::(lend_join::LendJoin|par_join::ParJoin|Join)(?![A-Za-z_])")


def norm(s):
    """identify the three join traits inside type / path strings; erase lifetimes and mutability of value refs"""
    if s is None:
        return None
    s = _JT.sub("JOIN", s)
    s = re.sub(r"'\w+ ?", "", s)
    return s


def join_impls(facts):
    """self type -> {Join|LendJoin|ParJoin: impl}"""
    by = collections.defaultdict(dict)
    for i in facts.impls:
        if i["trait"] in JOIN_TRAITS:
            by[i["self_ty"]][JOIN_TRAITS[i["trait"]]] = i
    return by


def method_body(facts, impl, name):
    p = impl["items"].get(name)
    return facts.body(p) if p else None


def abstraction(facts, b, with_closures=True, _seen=None):
    """multiset of (normalised callee path, normalised self type) of a body (and its closures)"""
    out = collections.Counter()
    _seen = _seen or set()
    if b is None or b.path in _seen:
        return out
    _seen.add(b.path)
    for bb, t in b.real_calls():
        c = t["callee"]
        if "path" not in c:
            continue
        st = norm(c.get("self_ty"))
        if st:
            st = re.sub(r"^&(mut )?", "", st)   # by-ref vs by-value receivers are the same member
        out[(norm(c["path"]), st)] += 1
    if with_closures:
        for bid, blk in b.blocks.items():
            for s in blk["stmts"]:
                rv = s["rv"]
                if rv["k"] == "aggregate" and "closure" in rv and rv["closure"] not in getattr(b, "inlined", ()):
                    for cb in facts.by_path.get(rv["closure"], []):
                        out += abstraction(facts, cb, True, _seen)
    return out


def unconstrained_kind(facts, impl):
    """'false' (default or constant), 'true', or ('members', multiset) for the conjunction over members"""
    b = method_body(facts, impl, "is_unconstrained")
    if b is None:
        return "false"
    consts = set()
    for d in b.defs().get(0, []):
        if d[0] == "stmt":
            v = rv_const_bool(d[4])
            if v is not None:
                consts.add(v)
    calls = abstraction(facts, b)
    if calls:
        return ("members", tuple(sorted((k, v) for k, v in calls.items())))
    if consts == {True}:
        return "true"
    if consts == {False}:
        return "false"
    return ("other", tuple(sorted(consts)))
