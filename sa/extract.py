"""Fact extraction: run the rustc_private driver over /repo's current working tree.

One fact file per (tree hash, configuration).  Nothing here looks at results of
earlier trees: the cache key is the sha256 of every analysed input file, so a
check can only ever read the facts of the tree that is on disk right now.
"""
import fcntl
import glob
import hashlib
import json
import os
import shutil
import subprocess
import sys
import time

VERIF = os.path.dirname(os.path.dirname(os.path.abspath(__file__)))
CACHE = os.environ.get("VERIF_CACHE") or os.path.join(VERIF, ".cache")   # (test tooling gives parallel sweep workers a cache each)
DRIVER = os.path.join(VERIF, "driver", "target", "release", "specs-facts")

FULL = "serde,uuid_entity,storage-event-control,derive"
CONFIGS = {
    "A": [],
    "F": ["--features", FULL],
    "N": ["--no-default-features"],
    "FN": ["--no-default-features", "--features", FULL],
}
# floors = two thirds of the body counts measured on the pinned tree
# (A 705, F 957, N 585, FN 837 measured 2026-09-26)
BODY_FLOOR = {"A": 470, "F": 640, "N": 390, "FN": 560}


class InfraError(Exception):
    pass


def repo():
    return os.path.abspath(os.environ.get("VERIF_REPO", "/repo"))


def tree_inputs(root):
    files = []
    for sub in ("src", os.path.join("specs-derive", "src")):
        for dp, dn, fn in os.walk(os.path.join(root, sub)):
            dn.sort()
            for f in sorted(fn):
                files.append(os.path.join(dp, f))
    for f in ("Cargo.toml", "Cargo.lock", os.path.join("specs-derive", "Cargo.toml")):
        p = os.path.join(root, f)
        if os.path.exists(p):
            files.append(p)
    return files


def tree_hash(root=None):
    root = root or repo()
    h = hashlib.sha256()
    for p in tree_inputs(root):
        h.update(os.path.relpath(p, root).encode())
        h.update(b"\0")
        with open(p, "rb") as fh:
            h.update(fh.read())
        h.update(b"\0")
    # the driver itself is part of the key: a rebuilt driver re-extracts
    try:
        with open(os.path.join(VERIF, "driver", "src", "main.rs"), "rb") as fh:
            h.update(fh.read())
    except OSError:
        pass
    return h.hexdigest()[:24]


def sysroot_lib():
    out = subprocess.run(["rustc", "+nightly", "--print", "sysroot"], capture_output=True, text=True)
    if out.returncode != 0:
        raise InfraError("nightly toolchain not available: " + out.stderr)
    return os.path.join(out.stdout.strip(), "lib")


def ensure_driver():
    src = os.path.join(VERIF, "driver", "src", "main.rs")
    if os.path.exists(DRIVER) and os.path.getmtime(DRIVER) >= os.path.getmtime(src):
        return
    os.makedirs(CACHE, exist_ok=True)
    with open(os.path.join(CACHE, "lock-driver"), "w") as lk:
        fcntl.flock(lk, fcntl.LOCK_EX)
        if os.path.exists(DRIVER) and os.path.getmtime(DRIVER) >= os.path.getmtime(src):
            return
        env = dict(os.environ, CARGO_NET_OFFLINE="true")
        env.pop("RUSTC_WORKSPACE_WRAPPER", None)
        env.pop("RUSTFLAGS", None)
        r = subprocess.run(["cargo", "build", "--release", "--offline"], cwd=os.path.join(VERIF, "driver"),
                           env=env, capture_output=True, text=True)
        if r.returncode != 0:
            raise InfraError("driver build failed:\n" + r.stderr[-4000:])


def _prune_cache(keep=None, keep_name=None):
    keep = keep or int(os.environ.get("VERIF_CACHE_KEEP", "8"))
    d = os.path.join(CACHE, "facts")
    try:
        ents = [(os.path.getmtime(os.path.join(d, e)), e) for e in os.listdir(d)]
    except OSError:
        return
    ents.sort(reverse=True)
    for _, e in ents[keep:]:
        if e != keep_name:
            shutil.rmtree(os.path.join(d, e), ignore_errors=True)


import contextlib


@contextlib.contextmanager
def config_lock(config, already=False):
    """exclusive lock on a configuration's shared target directory (extraction and witness compilation both hold it)"""
    if already:
        yield
        return
    os.makedirs(CACHE, exist_ok=True)
    with open(os.path.join(CACHE, "lock-" + config), "w") as lk:
        fcntl.flock(lk, fcntl.LOCK_EX)
        yield


def facts_path(config, root=None, locked=False):
    """Return path of the fact file for the current tree + config, extracting if needed."""
    root = root or repo()
    th = tree_hash(root)
    outdir = os.path.join(CACHE, "facts", th, config)
    fact = os.path.join(outdir, "specs.facts.json")
    if os.path.exists(fact) and os.path.exists(os.path.join(outdir, "ok")):
        try:
            os.utime(os.path.join(CACHE, "facts", th))   # most recently used: the last to be pruned
        except OSError:
            pass
        return fact
    ensure_driver()
    os.makedirs(outdir, exist_ok=True)
    with config_lock(config, locked):
        if os.path.exists(fact) and os.path.exists(os.path.join(outdir, "ok")):
            return fact
        # the tree may have changed while we waited for the lock
        if tree_hash(root) != th:
            return facts_path(config, root, True)
        target = os.path.join(CACHE, "target", config)
        os.makedirs(target, exist_ok=True)
        # cargo's freshness cache would silently skip the wrapper: drop the
        # workspace members' fingerprints so they are always recompiled.
        for fp in glob.glob(os.path.join(target, "debug", ".fingerprint", "specs-*")):
            shutil.rmtree(fp, ignore_errors=True)
        for old in glob.glob(os.path.join(target, "debug", "deps", "libspecs-*.rmeta")):
            os.remove(old)
        env = dict(os.environ)
        env.update({
            "CARGO_NET_OFFLINE": "true",
            "LD_LIBRARY_PATH": sysroot_lib() + ":" + os.environ.get("LD_LIBRARY_PATH", ""),
            "RUSTFLAGS": "-Zmir-opt-level=0 -Awarnings",
            "RUSTC_WORKSPACE_WRAPPER": DRIVER,
            "CARGO_TARGET_DIR": target,
            "FACTS_OUT": outdir,
            "FACTS_CRATES": "specs",
            "FACTS_CONFIG": config,
            "FACTS_TREE": th,
        })
        t0 = time.time()
        r = subprocess.run(["cargo", "+nightly", "check", "--offline", "--lib"] + CONFIGS[config],
                           cwd=root, env=env, capture_output=True, text=True)
        if r.returncode != 0:
            raise InfraError("tree does not compile in config %s (nothing analysed):\n%s" % (config, r.stderr[-6000:]))
        if not os.path.exists(fact):
            raise InfraError("driver produced no fact file for config %s (wrapper skipped?)\n%s" % (config, r.stderr[-2000:]))
        rmetas = glob.glob(os.path.join(target, "debug", "deps", "libspecs-*.rmeta"))
        if len(rmetas) != 1:
            raise InfraError("expected exactly one libspecs rmeta, found %r" % rmetas)
        shutil.copy(rmetas[0], os.path.join(outdir, "libspecs.rmeta"))
        with open(os.path.join(target, ".last_tree"), "w") as fh:
            fh.write(th)
        with open(os.path.join(outdir, "ok"), "w") as fh:
            fh.write("%.1f\n" % (time.time() - t0))
        _prune_cache(keep_name=th)
    return fact


def ensure_target_current(config, root=None, locked=False):
    """The cached libspecs.rmeta of a tree is only usable together with the dependency artefacts (proc-macro dylibs, rmetas) that
    were in the shared target directory when it was built.  If another tree was built there since (a seeded change, a scratch copy
    at the same path), rebuild this tree so that witnesses never see a mixture."""
    root = root or repo()
    th = tree_hash(root)
    target = os.path.join(CACHE, "target", config)
    try:
        with open(os.path.join(target, ".last_tree")) as fh:
            last = fh.read().strip()
    except OSError:
        last = None
    if last != th:
        okf = os.path.join(CACHE, "facts", th, config, "ok")
        if os.path.exists(okf):
            os.remove(okf)
        facts_path(config, root, locked)


def load(config, root=None):
    p = facts_path(config, root)
    from . import canon
    d, _moved = canon.load_json(p)      # items moved to another module are mapped back to the def paths the rule packs use
    if d.get("crate") != "specs" or d.get("config") != config:
        raise InfraError("fact file %s is not specs/%s" % (p, config))
    if len(d["bodies"]) < BODY_FLOOR[config]:
        raise InfraError("fact file %s has only %d bodies (< floor %d)" % (p, len(d["bodies"]), BODY_FLOOR[config]))
    d["_path"] = p
    d["_dir"] = os.path.dirname(p)
    return d


def fixture_facts(name="positive"):
    """facts of the matcher-control crate fixtures/<name> (cached on its source hash + driver)"""
    src = os.path.join(VERIF, "fixtures", name)
    h = hashlib.sha256()
    for f in ("Cargo.toml", os.path.join("src", "lib.rs")):
        with open(os.path.join(src, f), "rb") as fh:
            h.update(fh.read())
    with open(os.path.join(VERIF, "driver", "src", "main.rs"), "rb") as fh:
        h.update(fh.read())
    key = h.hexdigest()[:20]
    outdir = os.path.join(CACHE, "fixture-facts", name + "-" + key)
    fact = os.path.join(outdir, name + ".facts.json")
    if not os.path.exists(fact):
        ensure_driver()
        os.makedirs(outdir, exist_ok=True)
        with open(os.path.join(CACHE, "lock-fixture"), "w") as lk:
            fcntl.flock(lk, fcntl.LOCK_EX)
            if not os.path.exists(fact):
                target = os.path.join(CACHE, "target", "fixture-" + name)
                shutil.rmtree(os.path.join(target, "debug", ".fingerprint"), ignore_errors=True)
                env = dict(os.environ)
                env.update({"CARGO_NET_OFFLINE": "true", "LD_LIBRARY_PATH": sysroot_lib() + ":" + os.environ.get("LD_LIBRARY_PATH", ""),
                            "RUSTFLAGS": "-Zmir-opt-level=0 -Awarnings", "RUSTC_WORKSPACE_WRAPPER": DRIVER, "CARGO_TARGET_DIR": target,
                            "FACTS_OUT": outdir, "FACTS_CRATES": name, "FACTS_CONFIG": "fixture", "FACTS_TREE": key})
                r = subprocess.run(["cargo", "+nightly", "check", "--offline", "--lib"], cwd=src, env=env, capture_output=True, text=True)
                if r.returncode != 0 or not os.path.exists(fact):
                    # the driver may have written facts before a deny-level lint stopped the build: a failed build must never look
                    # like an analysed family to the next run (found with a shape that tripped `legacy_derive_helpers`)
                    shutil.rmtree(outdir, ignore_errors=True)
                    raise InfraError("fixture crate %s could not be analysed:\n%s" % (name, r.stderr[-3000:]))
    with open(fact) as fh:
        return json.load(fh)


def shapes_facts(tier="quick", root=None):
    """Compile the generated family of derive inputs (shapes/gen.py) against the CURRENT tree's specs + specs-derive with the
    fact driver and return (facts of the `shapes` crate, manifest).  The derive macros are executed by rustc while compiling the
    family (the only way a derive is ever used); the generated conversions themselves are never run."""
    root = root or repo()
    sys.path.insert(0, os.path.join(VERIF, "shapes"))
    import importlib
    gen = importlib.import_module("gen")
    src, manifest = gen.gen(tier)
    h = hashlib.sha256((tree_hash(root) + src).encode()).hexdigest()[:20]
    outdir = os.path.join(CACHE, "shapes-facts", tier + "-" + h)
    fact = os.path.join(outdir, "shapes.facts.json")
    if not os.path.exists(fact):
        ensure_driver()
        os.makedirs(outdir, exist_ok=True)
        with open(os.path.join(CACHE, "lock-shapes"), "w") as lk:
            fcntl.flock(lk, fcntl.LOCK_EX)
            if not os.path.exists(fact):
                crate = os.path.join(CACHE, "shapes-crate")
                os.makedirs(os.path.join(crate, "src"), exist_ok=True)
                with open(os.path.join(crate, "Cargo.toml"), "w") as fh:
                    fh.write('[package]\nname = "shapes"\nversion = "0.0.0"\nedition = "2021"\n\n[workspace]\n\n[dependencies]\n'
                             'specs = { path = "%s", features = ["serde", "derive"] }\nserde = { version = "1", features = ["derive"] }\n' % root)
                shutil.copy(os.path.join(root, "Cargo.lock"), os.path.join(crate, "Cargo.lock"))
                with open(os.path.join(crate, "src", "lib.rs"), "w") as fh:
                    fh.write(src)
                target = os.path.join(CACHE, "target", "shapes")
                # never trust cargo's mtime-based freshness for the analysed tree: rebuild specs, specs-derive and the family
                for pat in ("shapes-*", "specs-*"):
                    for fp in glob.glob(os.path.join(target, "debug", ".fingerprint", pat)):
                        shutil.rmtree(fp, ignore_errors=True)
                # every analysed tree is a path dependency at another location = another package id: without this the artifacts of
                # earlier trees (and one incremental directory each) pile up in the shared target directory for ever
                for pat in ("libshapes-*", "shapes-*", "libspecs-*", "specs-*", "libspecs_derive-*", "specs_derive-*"):
                    for fp in glob.glob(os.path.join(target, "debug", "deps", pat)):
                        try:
                            os.remove(fp)
                        except OSError:
                            pass
                shutil.rmtree(os.path.join(target, "debug", "incremental"), ignore_errors=True)
                env = dict(os.environ)
                env.update({"CARGO_NET_OFFLINE": "true", "LD_LIBRARY_PATH": sysroot_lib() + ":" + os.environ.get("LD_LIBRARY_PATH", ""),
                            "RUSTFLAGS": "-Zmir-opt-level=0 -Awarnings", "RUSTC_WORKSPACE_WRAPPER": DRIVER, "CARGO_TARGET_DIR": target,
                            "CARGO_INCREMENTAL": "0",
                            "FACTS_OUT": outdir, "FACTS_CRATES": "shapes", "FACTS_CONFIG": "shapes-" + tier, "FACTS_TREE": h})
                r = subprocess.run(["cargo", "+nightly", "check", "--offline", "--lib"], cwd=crate, env=env, capture_output=True, text=True)
                if r.returncode != 0 or not os.path.exists(fact):
                    # a family member that no longer compiles is a verdict about the derive, not an infrastructure problem: report the compiler's words
                    if "could not compile `shapes`" not in r.stderr:
                        raise InfraError("the tree (specs / specs-derive) does not compile, nothing analysed:\n" + r.stderr[-4000:])
                    return None, {"error": r.stderr[-6000:], "manifest": manifest}
    _prune_dir(os.path.join(CACHE, "shapes-facts"), int(os.environ.get("VERIF_CACHE_KEEP", "8")), keep_path=outdir)
    with open(fact) as fh:
        return json.load(fh), manifest


def _prune_dir(d, keep, keep_path=None):
    try:
        ents = sorted(((os.path.getmtime(os.path.join(d, e)), e) for e in os.listdir(d)), reverse=True)
    except OSError:
        return
    for _, e in ents[keep:]:
        if os.path.join(d, e) != keep_path:
            shutil.rmtree(os.path.join(d, e), ignore_errors=True)


if __name__ == "__main__":
    for c in sys.argv[1:] or ["A"]:
        t = time.time()
        d = load(c)
        print(c, d["_path"], len(d["bodies"]), "bodies", len(d["impls"]), "impls", "%.1fs" % (time.time() - t))
