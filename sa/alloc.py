"""Model of the entity allocator's roles, discovered from the facts (shared by C01, C02, C10, C17)."""
from .core import base_ty, strip_ref
from .summaries import entity_of_index

ALLOC = "world::entity::Allocator"
CACHE = "world::entity::EntityCache"
ZGEN = "world::entity::ZeroableGeneration"

VEC_GROW = {"push", "extend", "insert", "append", "extend_from_slice", "extend_from_within", "resize", "push_within_capacity"}
VEC_MUT = VEC_GROW | {"pop", "remove", "swap_remove", "drain", "clear", "retain", "dedup", "split_off", "set_len"}


class AllocModel:
    def __init__(self, facts):
        self.f = facts
        self.bodies = [b for b in facts.bodies if b.self_ty == ALLOC]
        self.closures = [b for b in facts.bodies if b.kind == "Closure" and any(b.path.startswith(p.path + "::") for p in self.bodies)]
        allb = getattr(facts, "all_bodies", facts.bodies)
        zg = [b for b in allb if b.self_ty == ZGEN and b.argc == 1 and b.ltype.get(1, "").startswith("&mut")]
        # role discovery by signature: &mut self -> ()  is "die", &mut self -> Generation is "raise"
        self.die = {b.path for b in zg if b.ltype[0] == "()"}
        self.raise_ = {b.path for b in zg if b.ltype[0] == "world::entity::Generation"}
        # EntityCache methods that grow the free list
        self.growers = set()
        for b in allb:
            if b.self_ty != CACHE:
                continue
            for bb, t in b.calls():
                c = t["callee"]
                if c.get("name") in VEC_GROW and self._is_vec(c) and self.field_of(b, b.arg_origin(bb, 0)) == ("cache",):
                    self.growers.add(b.path)

    @staticmethod
    def _is_vec(c):
        return "vec::Vec" in (c.get("self_ty") or "") or "vec::Vec" in (c.get("path") or "")

    def field_of(self, body, org):
        """projection path if `org` is (a field of) the receiver `self` of an Allocator/EntityCache
        method (or, for a closure, of the captured receiver); else None"""
        body, org = self.f.root_origin(body, org)
        if org[0] == "param" and org[1] == 1 and body.self_ty in (ALLOC, CACHE, "world::entity::EntitiesRes"):
            return org[2]
        return None

    def index_key(self, body, org):
        """canonical identity of an index value: ('entity', origin of x) for x.id(), else the origin"""
        x = entity_of_index(body, org)
        if x is not None:
            return ("entity", x)
        return org

    def calls_on_field(self, body, field, names, self_sub=None):
        """call sites whose receiver (arg 0) is self.<field> and whose callee name is in names"""
        out = []
        for bb, t in body.calls():
            c = t["callee"]
            if c.get("name") in names and t["args"]:
                if self.field_of(body, body.arg_origin(bb, 0)) == field:
                    if self_sub is None or self_sub in (c.get("self_ty") or c.get("path") or ""):
                        out.append((bb, t))
        return out

    def death_sites(self, body):
        """the alive bit of an index is cleared: BitSet::remove(self.alive, i)"""
        return self.calls_on_field(body, ("alive",), {"remove"}, "BitSet")

    def revive_sites(self, body):
        return self.calls_on_field(body, ("alive",), {"add"}, "BitSet")

    def gen_slot_calls(self, body, which):
        """calls of die / raise on generations[i]: (bb, index key)"""
        out = []
        for bb, t in body.calls():
            c = t["callee"]
            if c.get("path") in which:
                ro = body.arg_origin(bb, 0)
                co = body.call_of(ro)
                # `generations.get_mut(i).expect("..")` / `.unwrap()`: the checked spelling of `generations[i]` (benign C01-s1, C05-s1)
                hops = 0
                while co and co[1].get("name") in ("expect", "unwrap", "unwrap_unchecked", "unwrap_or_else") and hops < 3:
                    co = body.call_of(body.arg_origin(co[0], 0))
                    hops += 1
                if co and co[1].get("name") in ("index_mut", "index", "get_mut", "get_unchecked_mut"):
                    ibb = co[0]
                    ro2 = body.arg_origin(ibb, 0)
                    if ro2[0] == "call" and body.term(ro2[1])["callee"].get("name") in ("deref", "deref_mut", "as_mut_slice", "as_slice") and body.term(ro2[1])["args"]:
                        ro2 = body.arg_origin(ro2[1], 0)
                    if self.field_of(body, ro2) == ("generations",):
                        out.append((bb, self.index_key(body, body.arg_origin(ibb, 1))))
                        continue
                out.append((bb, None))
        return out

    def recyclers(self):
        """must-call summary: Allocator methods that push onto the free list on every path to return"""
        if getattr(self, "_recyclers", None) is None:
            self._recyclers = set()
            changed = True
            while changed:
                changed = False
                for b in self.bodies:
                    if b.path in self._recyclers:
                        continue
                    rb = {bb for bb, _ in self.recycle_sites(b)}
                    if rb and b.must_pass(0, rb)[0]:
                        self._recyclers.add(b.path)
                        changed = True
        return self._recyclers

    def recycle_sites(self, body):
        """calls that push indices onto the free list: grower methods on self.cache, Vec growth on
        self.cache.cache, or a call on self of a method that must do so (wrapper summary)"""
        out = []
        rec = getattr(self, "_recyclers", None) or set()
        for bb, t in body.calls():
            c = t["callee"]
            if t["args"] and c.get("path") in rec and self.field_of(body, body.arg_origin(bb, 0)) == ():
                out.append((bb, t))
        for bb, t in body.calls():
            c = t["callee"]
            if not t["args"]:
                continue
            fo = self.field_of(body, body.arg_origin(bb, 0))
            tp = c.get("resolved") if c.get("resolved") in self.growers else c.get("path")
            if fo == ("cache",) and tp in self.growers:
                out.append((bb, t))
            elif fo == ("cache", "cache") and c.get("name") in VEC_GROW and self._is_vec(c):
                out.append((bb, t))
        return out

    def pop_calls(self, body):
        """calls that take an index from the free list: methods of EntityCache returning Option<u32> on self.cache"""
        out = []
        for bb, t in body.calls():
            c = t["callee"]
            if not t["args"]:
                continue
            tb = [x for x in self.f.targets(c) if x.self_ty == CACHE and x.ltype[0].replace(" ", "") == "std::option::Option<u32>"]
            if tb and self.field_of(body, body.arg_origin(bb, 0)) == ("cache",):
                out.append((bb, t))
        return out
