"""Rules over the entity allocator shared by C01 / C17 (index provenance) and C02 / C10."""
from ..alloc import ALLOC, CACHE, AllocModel

ATOMIC_WRITE = {"store", "swap", "fetch_add", "fetch_sub", "fetch_update", "compare_exchange", "compare_exchange_weak",
                "fetch_max", "fetch_min", "compare_and_swap"}
FALLBACK = {"unwrap_or_else": 1, "or_else": 1, "map_or_else": 1}


def atomic_writers(facts):
    """crate-local functions taking an &Atomic* parameter that they modify: path -> param index (0-based)"""
    out = {}
    for b in facts.bodies:
        for i in range(1, b.argc + 1):
            if "atomic::Atomic" not in b.ltype[i]:
                continue
            for bb, t in b.calls():
                c = t["callee"]
                if c.get("name") in ATOMIC_WRITE and "atomic::Atomic" in (c.get("self_ty") or c.get("path", "")):
                    o = b.arg_origin(bb, 0)
                    if o[0] == "param" and o[1] == i:
                        out[b.path] = i - 1
    return out


def bump_sites(facts, model, field):
    """(body, bb, line, how) where the allocator's counter `field` is modified"""
    writers = atomic_writers(facts)
    out = []
    for b in model.bodies + model.closures + [x for x in facts.bodies if x.self_ty == CACHE]:
        for bb, t in b.calls():
            c = t["callee"]
            if not t["args"]:
                continue
            for ai, a in enumerate(t["args"]):
                fo = model.field_of(b, b.operand_origin(a))
                if fo != field:
                    continue
                if c.get("path") in writers and writers[c["path"]] == ai:
                    out.append((b, bb, t["line"], "call " + c["path"]))
                elif ai == 0 and c.get("name") in ATOMIC_WRITE and "atomic::Atomic" in (c.get("self_ty") or ""):
                    out.append((b, bb, t["line"], "atomic " + c["name"]))
        # stores through Atomic::get_mut(field)
        for sbb, si, dst, rv, line in b.stores():
            po = b.origin({"local": dst["local"], "proj": []})
            co = b.call_of(po)
            if co and co[1].get("name") == "get_mut" and model.field_of(b, b.arg_origin(co[0], 0)) == field:
                out.append((b, sbb, line, "store through get_mut"))
    return out


def fresh_only_after_failed_pop(ctx, facts, rule):
    """every modification of the fresh-index counter happens only where a pop from the free list failed"""
    model = AllocModel(facts)
    sites = bump_sites(facts, model, ("max_id",))
    n = 0
    for b, bb, line, how in sites:
        key = "%s bumps max_id (%s)" % (b.path, how)
        ok = False
        why = ""
        if b.kind == "Closure":
            site = facts.closure_site(b)
            if site:
                parent, pbb, pi, rv = site
                # the closure value must be the fallback argument of Option::unwrap_or_else & co on a pop result
                clo_dst = parent.blocks[pbb]["stmts"][pi]["dst"]["local"]
                for cbb, t in parent.calls():
                    c = t["callee"]
                    nm = c.get("name")
                    if nm in FALLBACK and "option::Option" in (c.get("path") or ""):
                        ai = FALLBACK[nm]
                        if ai < len(t["args"]):
                            ao = parent.operand_origin(t["args"][ai])
                            if ao == ("agg", pbb, pi, ()):
                                ro = parent.arg_origin(cbb, 0)
                                if ro[0] == "call" and any(ro[1] == x for x, _ in model.pop_calls(parent)):
                                    ok = True
                                else:
                                    why = "fallback closure of %s whose receiver is not a free-list pop (%r)" % (nm, ro)
                if not ok and not why:
                    why = "closure is not the failure fallback of a free-list pop"
        else:
            pops = {x for x, _ in model.pop_calls(b)}
            ves = b.variant_edges(lambda so: so[0] == "call" and so[1] in pops and not so[2])
            removed = {e["edges"]["None"] for e in ves if "None" in e["edges"]}
            if pops and removed and bb not in b.reachable(0, removed=removed):
                ok = True
            else:
                why = "counter bumped on a path that is not the None-edge of a free-list pop"
        n += 1
        ctx.ob(rule, key, ok, b.loc(line=line), why)
    return n, model


def pending_loops(model, b):
    """loops of an allocator body over a pending set: (next bb, field, item origin, Some-edge target)"""
    out = []
    for nbb, nt in b.calls():
        if nt["callee"].get("path") != "std::iter::Iterator::next":
            continue
        # the set the iterator was made from (receiver chain), not everything its elements may depend on
        rr = b.receiver_root(b.arg_origin(nbb, 0))
        flds = {rr[2][0]} if rr[0] == "param" and rr[1] == 1 and rr[2] else set()
        flds &= {"raised", "killed"}
        if len(flds) != 1:
            continue
        for ve in b.variant_edges(lambda so: so == ("call", nbb, ())):
            some = ve["edges"].get("Some")
            if some:
                out.append((nbb, flds.pop(), ("call", nbb, ("as Some", "0")), some[1]))
    return out


def result_pushes(b):
    """pushes of Entity aggregates into the vector the body returns: (bb, index origin)"""
    ro = None
    for d in b.defs().get(0, []):
        if d[0] == "stmt" and d[4]["k"] == "use":
            ro = b.operand_origin(d[4]["ops"][0])
    out = []
    if ro is None:
        return out
    for bb, t in b.calls():
        if t["callee"].get("name") == "push" and "vec::Vec" in t["callee"].get("path", "") and b.arg_origin(bb, 0) == ro:
            eo = b.arg_origin(bb, 1)
            if eo[0] == "agg":
                rv = b.blocks[eo[1]]["stmts"][eo[2]]["rv"]
                if rv.get("adt") == "world::entity::Entity" and rv["ops"]:
                    out.append((bb, b.operand_origin(rv["ops"][0])))
    return out


def merge_accounting(ctx, facts, model, parts):
    """parts: dict name -> rule id.  'revive': every pending creation becomes alive (or is reported dead);
    'kill': every pending deletion kills its slot; 'report': every slot death is reported in the returned vector."""
    n = 0
    for b in model.bodies:
        loops = pending_loops(model, b)
        if not loops or not b.ltype[0].startswith("std::vec::Vec<world::entity::Entity"):
            continue
        pushes = result_pushes(b)
        dies = model.gen_slot_calls(b, model.die)
        rets = b.returns()
        for nbb, fld, item, tgt in loops:
            n += 1
            goals = [nbb] + rets
            if fld == "raised" and "revive" in parts:
                adds = [bb for bb, t in model.revive_sites(b) if b.arg_origin(bb, 1) == item]
                rep = [bb for bb, io in pushes if io == item]
                ok, wit = b.must_pass(tgt, adds + rep, goals=goals)
                ctx.ob(parts["revive"], "%s: every pending creation becomes alive (or is reported dead)" % b.path, ok, b.loc(nbb),
                       "" if ok else "an index taken from the pending-creation set can leave the merge loop neither alive nor reported as deleted: "
                       "the entity vanishes, its index is lost and its components are never purged; path %s" % b.fmt_path(wit))
            if fld == "killed" and "kill" in parts:
                ds = [bb for bb, k in dies if k == item]
                ok, wit = b.must_pass(tgt, ds, goals=goals)
                ctx.ob(parts["kill"], "%s: every pending deletion takes effect" % b.path, ok, b.loc(nbb),
                       "" if ok else "an index taken from the pending-deletion set can leave the merge loop without its generation slot dying; path %s" % b.fmt_path(wit))
        if "report" in parts:
            for dbb, k in dies:
                lp = [(nbb, tgt) for nbb, fld, item, tgt in loops if item == k]
                if not lp:
                    ctx.ob(parts["report"], "%s: slot death at line %d is reported" % (b.path, b.term(dbb)["line"]), "undetermined", b.loc(dbb),
                           "cannot relate the dying index to a pending-set iteration (%r)" % (k,))
                    continue
                nbb, tgt = lp[0]
                P = [bb for bb, io in pushes if io == k]
                before = dbb in b.reachable(tgt, stop=P) and dbb not in P
                after = any(g in b.reachable(dbb, stop=P) for g in [nbb] + rets) if before else False
                ok = not (before and after)
                ctx.ob(parts["report"], "%s: index dying in the `%s` loop is reported in the returned handles" % (b.path, [f for n_, f, it, tg in loops if n_ == nbb][0]), ok, b.loc(dbb),
                       "" if ok else "an index dies in merge without its handle being pushed to the returned vector: World::maintain purges components only "
                       "for the handles merge returns, so the next entity on this index inherits the dead entity's components")
    return n
