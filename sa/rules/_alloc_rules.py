"""Rules over the entity allocator shared by C01 / C17 (index provenance) and C02 / C10."""
from ..alloc import ALLOC, CACHE, AllocModel

ATOMIC_WRITE = {"store", "swap", "fetch_add", "fetch_sub", "fetch_update", "compare_exchange", "compare_exchange_weak",
                "fetch_max", "fetch_min", "compare_and_swap"}
FALLBACK = {"unwrap_or_else": 1, "or_else": 1, "map_or_else": 1}


def atomic_writers(facts):
    """crate-local functions taking an &Atomic* parameter that they modify: path -> param index (0-based)"""
    out = {}
    for b in facts.bodies:
        for i in range(1, b.argc + 1):
            if "atomic::Atomic" not in b.ltype[i]:
                continue
            for bb, t in b.calls():
                c = t["callee"]
                if c.get("name") in ATOMIC_WRITE and "atomic::Atomic" in (c.get("self_ty") or c.get("path", "")):
                    o = b.arg_origin(bb, 0)
                    if o[0] == "param" and o[1] == i:
                        out[b.path] = i - 1
    return out


def bump_sites(facts, model, field):
    """(body, bb, line, how) where the allocator's counter `field` is modified"""
    writers = atomic_writers(facts)
    out = []
    for b in model.bodies + model.closures + [x for x in facts.bodies if x.self_ty == CACHE]:
        for bb, t in b.calls():
            c = t["callee"]
            if not t["args"]:
                continue
            for ai, a in enumerate(t["args"]):
                fo = model.field_of(b, b.operand_origin(a))
                if fo != field:
                    continue
                if c.get("path") in writers and writers[c["path"]] == ai:
                    out.append((b, bb, t["line"], "call " + c["path"]))
                elif ai == 0 and c.get("name") in ATOMIC_WRITE and "atomic::Atomic" in (c.get("self_ty") or ""):
                    out.append((b, bb, t["line"], "atomic " + c["name"]))
        # stores through Atomic::get_mut(field)
        for sbb, si, dst, rv, line in b.stores():
            po = b.origin({"local": dst["local"], "proj": []})
            co = b.call_of(po)
            if co and co[1].get("name") == "get_mut" and model.field_of(b, b.arg_origin(co[0], 0)) == field:
                out.append((b, sbb, line, "store through get_mut"))
    return out


def fresh_only_after_failed_pop(ctx, facts, rule):
    """every modification of the fresh-index counter happens only where a pop from the free list failed"""
    model = AllocModel(facts)
    sites = bump_sites(facts, model, ("max_id",))
    n = 0
    for b, bb, line, how in sites:
        key = "%s bumps max_id (%s)" % (b.path, how)
        ok = False
        why = ""
        if b.kind == "Closure":
            site = facts.closure_site(b)
            if site:
                parent, pbb, pi, rv = site
                # the closure value must be the fallback argument of Option::unwrap_or_else & co on a pop result
                clo_dst = parent.blocks[pbb]["stmts"][pi]["dst"]["local"]
                for cbb, t in parent.calls():
                    c = t["callee"]
                    nm = c.get("name")
                    if nm in FALLBACK and "option::Option" in (c.get("path") or ""):
                        ai = FALLBACK[nm]
                        if ai < len(t["args"]):
                            ao = parent.operand_origin(t["args"][ai])
                            if ao == ("agg", pbb, pi, ()):
                                ro = parent.arg_origin(cbb, 0)
                                if ro[0] == "call" and any(ro[1] == x for x, _ in model.pop_calls(parent)):
                                    ok = True
                                else:
                                    why = "fallback closure of %s whose receiver is not a free-list pop (%r)" % (nm, ro)
                if not ok and not why:
                    why = "closure is not the failure fallback of a free-list pop"
        else:
            pops = {x for x, _ in model.pop_calls(b)}
            ves = b.variant_edges(lambda so: so[0] == "call" and so[1] in pops and not so[2])
            removed = {e["edges"]["None"] for e in ves if "None" in e["edges"]}
            if pops and removed and bb not in b.reachable(0, removed=removed):
                ok = True
            else:
                why = "counter bumped on a path that is not the None-edge of a free-list pop"
        n += 1
        ctx.ob(rule, key, ok, b.loc(line=line), why)
    return n, model
