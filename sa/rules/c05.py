"""C05 - deleting an entity purges its components everywhere; a reused index starts empty."""
from ..core import base_ty

ARMED = True
TECHNIQUE = "must-pass-through pairing (storage creation => table registration, same generic argument), value-origin of the purge argument, who-may-call over the MIR call graph"
EXPLANATION = (
    "R1 (registration pairing): every body that can put a MaskedStorage<X> into the world (a call of shred::World::entry::<MaskedStorage<X>> "
    "or World::insert::<MaskedStorage<X>>, found by generic argument) calls MetaTable::<dyn AnyStorage>::register::<MaskedStorage<X>> with the "
    "same X on every CFG path to return. R2 (purge argument): in delete_entities, on the Err edge of the kill result delete_components is called "
    "on every path with a slice whose data roots include BOTH the batch parameter and the failure position taken from that same Err payload, and "
    "on the Ok edge with the batch parameter itself; in maintain, delete_components is called with the merge() result and can be skipped only "
    "under a condition computed from that same result; and inside merge every index whose generation slot dies is pushed (as a handle) into "
    "the returned vector on every path of its iteration; and EVERY other body that purges (a further batch / lenient / retain-style "
    "deletion entry point) must justify the purged slice by the allocator: it derives from the result of an allocator method that kills (role: an "
    "impl Allocator body with a death site), or the site lies on the Ok arm of such a call and is handed that very batch, or on its Err arm and "
    "depends on batch and failure position (only private helpers count as wrappers). R3 (the walk): delete_components loops over MetaTable::iter_mut and every iteration "
    "calls AnyStorage::drop(item, the parameter); <MaskedStorage<T> as AnyStorage>::drop calls MaskedStorage::drop(self, id of each element). "
    "R4 (who may purge): the crate-local callers of delete_components are a subset of {delete_entities, maintain}, of AnyStorage::drop a subset of "
    "{delete_components}, of MaskedStorage::drop(id) a subset of {the AnyStorage impl} plus checked accessors (the id is the index of a handle whose own aliveness test guards the call - a destroy-in-place twin of Storage::remove)."
)
NOT_DECIDED = ("that shred's MetaTable::iter_mut visits every registered storage; that the slice bounded by the failure position is exactly the killed "
               "prefix (value-dependent; the killed prefix itself is C02); components of entities not being deleted are untouched because only the "
               "handles returned by kill/merge reach the purge (R2+R4), not by a frame argument over values")
TRUSTED = ["rustc nightly MIR and generic-argument printing", "shred World::{entry,insert,fetch_mut}, MetaTable::{register,iter_mut}", "sa/ analyses"]
LEVEL_TEXT = ("All paths of setup/registration bodies pair storage creation with table registration for the same component type; the purge "
              "argument is traced by value origin to the allocator's kill/merge result on every path, including the failing-batch path; "
              "and a who-may-call closure shows nothing else reaches the purge. Iteration over the table is shred's and is trusted.")

MASKED = "storage::MaskedStorage<"


def configs(tier):
    return ["A", "N"] if tier == "quick" else ["A", "F", "N", "FN"]   # N: three independent seeds (C01-g2, C10-g2, C17-g2) hid a defect in a cfg(not(parallel)) twin


def run(ctx):
    for r, t in [("C05-R1", "storage creation => table registration on all paths (same component type)"),
                 ("C05-R2", "purge argument derives from the kill/merge result"),
                 ("C05-R3", "the purge walks every table entry and every deleted handle"),
                 ("C05-R4", "who may call the purge")]:
        ctx.rule(r, t)
    for cfg in configs(ctx.tier):
        facts = ctx.xfacts(cfg)
        r1(ctx, facts)
        r2(ctx, facts)
        r2_generic(ctx, facts)
        r3(ctx, facts)
        r4(ctx, facts)
        from ..alloc import AllocModel
        from . import _alloc_rules
        _alloc_rules.merge_accounting(ctx, facts, AllocModel(facts), {'report': 'C05-R2'})


def masked_arg(c):
    """the MaskedStorage<X> generic argument of a shred call, if any"""
    for s in c.get("substs", []):
        if s.startswith(MASKED):
            return s
    return None


def r1(ctx, facts):
    n = 0
    for b in facts.bodies:
        creates = []
        for bb, t in b.calls():
            c = t["callee"]
            if c.get("path") in ("shred::World::entry", "shred::World::insert") and masked_arg(c):
                creates.append((bb, masked_arg(c)))
        for bb, x in creates:
            n += 1
            regs = [rbb for rbb, t in b.calls() if t["callee"].get("name") == "register" and "MetaTable" in t["callee"].get("path", "")
                    and x in t["callee"].get("substs", [])]
            ok, wit = b.must_pass(bb, regs) if regs else (False, None)
            others = [t["callee"].get("substs") for rbb, t in b.calls() if t["callee"].get("name") == "register" and "MetaTable" in t["callee"].get("path", "")]
            ctx.ob("C05-R1", "%s creates %s" % (b.path, x), ok, b.loc(bb),
                   "" if ok else "a %s can be put into the world here without being registered in the MetaTable<dyn AnyStorage> "
                   "(registrations in this body: %s; path %s): deleting an entity would leave its component behind" % (x, others, b.fmt_path(wit)))
            # the registration must not depend on the storage being new: a storage that is already in the world (inserted as a
            # plain resource) is only made known to the purge by this very call
            ok2, wit2 = b.must_pass(0, regs) if regs else (False, None)
            ctx.ob("C05-R1", "%s registers %s whether or not it had to create it" % (b.path, x), ok2, b.loc(bb),
                   "" if ok2 else "this body can return without registering %s in the MetaTable<dyn AnyStorage> (path %s): a storage that already "
                   "exists in the world stays unknown to delete_components" % (x, b.fmt_path(wit2)))
    ctx.floor("C05-R1", "bodies creating a MaskedStorage in the world", n, 3)
    # the table itself is inserted by WorldExt::new
    new = [b for b in facts.bodies if b.trait_item == "world::world_ext::WorldExt::new"]
    ctx.anchor("C05-R1", "WorldExt::new", new)
    for b in new:
        ok = any(t["callee"].get("path") == "shred::World::insert" and any("MetaTable<dyn storage::AnyStorage>" in s for s in t["callee"].get("substs", []))
                 for _, t in b.calls())
        ctx.ob("C05-R1", "WorldExt::new inserts the storage table", ok, b.loc(), "" if ok else "World::new does not insert MetaTable<dyn AnyStorage>")


DC = "world::world_ext::WorldExt::delete_components"
_PURGERS = {}


def purgers(facts):
    """crate-local helpers that hand one of their parameters to delete_components on every path: path -> arg index of the slice"""
    if id(facts) in _PURGERS:
        return _PURGERS[id(facts)]
    out = {}
    for b in facts.bodies:
        if b.kind == "Closure" or b.trait_item == DC:
            continue
        dcs = [bb for bb, t in b.calls() if t["callee"].get("path") == DC]
        if len(dcs) == 1 and b.must_pass(0, dcs)[0]:
            ao = b.arg_origin(dcs[0], 1)
            # only a *private* helper is a wrapper (its callers are all in the crate and are examined in its place); a public function or a
            # trait method that purges its own parameter is an entry point of its own and must justify the purge itself (R2, generic part)
            private = not b.trait_item and (b.vis or "").startswith("Restricted")
            if ao[0] == "param" and not ao[2] and private:
                out[b.path] = ao[1] - 1
    _PURGERS[id(facts)] = out
    return out


def dc_arg(facts, t):
    """position of the deleted-handles slice if the call purges components (directly or through a wrapper), else None"""
    c = t["callee"]
    if c.get("path") == DC:
        return 1
    pg = purgers(facts)
    for p in (c.get("resolved"), c.get("path")):
        if p in pg:
            return pg[p]
    return None


def is_dc(t):
    return t["callee"].get("path") == DC


def r2(ctx, facts):
    de = [b for b in facts.bodies if b.trait_item == "world::world_ext::WorldExt::delete_entities"]
    ctx.anchor("C05-R2", "WorldExt::delete_entities", de)
    for b in de:
        kills = [bb for bb, t in b.calls() if t["callee"].get("path") == "world::entity::Allocator::kill"]
        ctx.anchor("C05-R2", "delete_entities calls Allocator::kill", kills)
        if not kills:
            continue
        kbb = kills[0]
        batch = b.arg_origin(kbb, 1)
        ves = b.variant_edges(lambda so: so == ("call", kbb, ()))
        if not ves:
            ctx.ob("C05-R2", "delete_entities branches on the kill result", False, b.loc(kbb), "no match on the result of kill()")
            continue
        dcs = [(bb, t) for bb, t in b.calls() if dc_arg(facts, t) is not None]
        for edge_name in ("Err", "Ok"):
            for ve in ves:
                e = ve["edges"].get(edge_name)
                if not e:
                    continue
                tgt = e[1]
                # what happens on the paths that leave the match on kill()'s result through this arm: delete the other arms
                v = b.without_edges({x for n, x in ve["edges"].items() if x != e})
                live = v.reachable(tgt)
                mine = [(bb, t) for bb, t in dcs if bb in live]
                ok, wit = v.must_pass(tgt, [bb for bb, _ in mine])
                ctx.ob("C05-R2", "delete_entities %s-edge purges on every path" % edge_name, ok and bool(mine), b.loc(ve["switch"]),
                       "" if ok and mine else "after kill() returned %s there is a path to return without delete_components: %s" % (edge_name, b.fmt_path(wit)))
                for bb, t in mine:
                    ao = v.arg_origin(bb, dc_arg(facts, t))
                    roots = v.roots(ao)
                    has_batch = any(r == batch or (r[0] == batch[0] and r[1] == batch[1]) for r in roots)
                    if edge_name == "Err":
                        has_pos = v.depends_on_call(ao, kbb, ("as Err",))
                        ok2 = has_batch and has_pos
                        why = "" if ok2 else ("on the failing-batch path the purged slice must depend on both the batch and the failure position of the "
                                              "kill() error (roots: %s): purging the whole batch deletes components of live entities (#766), purging nothing "
                                              "leaves components of dead ones" % sorted(map(repr, roots)))
                    else:
                        ok2 = ao == batch
                        why = "" if ok2 else "on success the purge must be handed the batch itself (origin %r, expected %r)" % (ao, batch)
                    ctx.ob("C05-R2", "delete_entities %s-edge purge argument" % edge_name, ok2, b.loc(bb), why)
    mt = [b for b in facts.bodies if b.trait_item == "world::world_ext::WorldExt::maintain"]
    ctx.anchor("C05-R2", "WorldExt::maintain", mt)
    for b in mt:
        merges = [bb for bb, t in b.calls() if t["callee"].get("path") == "world::entity::Allocator::merge"]
        ctx.anchor("C05-R2", "maintain calls Allocator::merge", merges)
        if not merges:
            continue
        mbb = merges[0]
        res = ("call", mbb, ())
        dcs = [(bb, t) for bb, t in b.calls() if dc_arg(facts, t) is not None]
        good = [bb for bb, t in dcs if b.depends_on_call(b.arg_origin(bb, dc_arg(facts, t)), mbb) and b.arg_origin(bb, dc_arg(facts, t))[0] != "param"]
        ctx.ob("C05-R2", "maintain purges the handles returned by merge()", bool(good), b.loc(mbb),
               "" if good else "no delete_components call takes the merge() result")
        if good:
            # may be skipped only under a condition on the merge result: delete every switch edge whose discriminant depends on res
            removed = set()
            for sbb, org, tv, other in b.switch_edges():
                if b.depends_on_call(org, mbb):
                    # keep only edges that lead to a purge: remove edges that bypass all purge blocks
                    for tgt in set(tv.values()) | {other}:
                        if not any(g in b.reachable(tgt) for g in good):
                            removed.add((sbb, tgt))
            ok, wit = b.must_pass(b.term(mbb)["target"], good, removed=removed)
            ctx.ob("C05-R2", "maintain skips the purge only on a condition over the merge() result", ok, b.loc(mbb),
                   "" if ok else "path from merge() to return bypasses delete_components without testing the merge result: %s" % b.fmt_path(wit))


_KILLERS = {}


def killers(facts):
    """methods of the allocator that make entities die (role: an `impl Allocator` body with a death site - the alive bit cleared or the
    generation slot killed), with their return type: path -> type.  `kill` (Result, reports a failure position) and `merge` (the list of the
    dead) are today's two; a new killing method is discovered the same way."""
    if id(facts) in _KILLERS:
        return _KILLERS[id(facts)]
    from ..alloc import AllocModel
    model = AllocModel(facts)
    out = {}
    for b in model.bodies:
        if model.death_sites(b) or model.gen_slot_calls(b, model.die):
            out[b.path] = b.ltype.get(0, "")
    _KILLERS[id(facts)] = out
    return out


def r2_generic(ctx, facts):
    """every other body that purges (a new batch / lenient / retain-style deletion API): the slice handed to the purge is justified by the
    allocator - it derives from a merge() result, or the site lies on the Ok arm of a kill(x) and is handed that very x, or on its Err arm
    and depends on x and on the reported failure position.  Anything else purges components of entities the allocator did not just kill."""
    pg = purgers(facts)
    for b in facts.bodies:
        if b.trait_item in (DC, "world::world_ext::WorldExt::delete_entities", "world::world_ext::WorldExt::maintain") or b.path in pg:
            continue
        sites = [(bb, t) for bb, t in b.real_calls() if dc_arg(facts, t) is not None]
        if not sites:
            continue
        kp = killers(facts)
        kills = [bb for bb, t in b.calls() if (t["callee"].get("resolved") or t["callee"].get("path")) in kp and "Result<" in kp[(t["callee"].get("resolved") or t["callee"].get("path"))]]
        merges = [bb for bb, t in b.calls() if (t["callee"].get("resolved") or t["callee"].get("path")) in kp and "Result<" not in kp[(t["callee"].get("resolved") or t["callee"].get("path"))]
                  and kp[(t["callee"].get("resolved") or t["callee"].get("path"))] != "()"]
        for n, (bb, t) in enumerate(sites):
            ao = b.arg_origin(bb, dc_arg(facts, t))
            ok, why = False, "the purged slice is justified by no result of an allocator method that kills (kill / merge or a new sibling) in this body"
            if any(b.depends_on_call(ao, m) for m in merges) and ao[0] != "param":
                ok, why = True, ""
            for k in kills if not ok else []:
                batch = b.arg_origin(k, 1)
                for ve in b.variant_edges(lambda so: so == ("call", k, ())):
                    oke, erre = ve["edges"].get("Ok"), ve["edges"].get("Err")
                    on_ok = oke is not None and bb not in b.reachable(0, removed={oke})
                    on_err = erre is not None and bb not in b.reachable(0, removed={erre})
                    if on_ok:
                        if ao == batch:
                            ok, why = True, ""
                        else:
                            why = ("after kill(%r) succeeded the purge is handed a different slice (%r): handles that kill() rejected or never saw lose "
                                   "their index's components - a live entity that reuses such an index is stripped" % (batch, ao))
                    elif on_err:
                        roots = b.roots(ao)
                        if b.depends_on_call(ao, k, ("as Err",)) and any(r[:2] == batch[:2] for r in roots):
                            ok, why = True, ""
                        else:
                            why = "on the failing path the purged slice does not depend on both the batch and the failure position"
            ctx.ob("C05-R2", "%s purge #%d is justified by the allocator" % (b.path, n), ok, b.loc(bb), why)


def r3(ctx, facts):
    dc = [b for b in facts.bodies if b.trait_item == "world::world_ext::WorldExt::delete_components"]
    ctx.anchor("C05-R3", "WorldExt::delete_components", dc)
    for b in dc:
        nexts = [bb for bb, t in b.calls() if t["callee"].get("path") == "std::iter::Iterator::next" and "MetaIterMut" in (t["callee"].get("self_ty") or "")]
        drops = [bb for bb, t in b.calls() if t["callee"].get("path") == "storage::AnyStorage::drop"]
        ok = bool(nexts) and bool(drops)
        detail = "no loop over MetaTable::iter_mut calling AnyStorage::drop"
        if ok:
            nbb = nexts[0]
            # iterator comes from MetaTable::iter_mut
            roots = b.roots(b.arg_origin(nbb, 0))
            ok = any(r[0] == "call" and b.term(r[1])["callee"].get("name") == "fetch_mut" for r in roots) or \
                any(b.term(x)["callee"].get("name") == "iter_mut" and "MetaTable" in b.term(x)["callee"].get("path", "") for x, _ in b.calls())
            ves = b.variant_edges(lambda so: so == ("call", nbb, ()))
            for ve in ves:
                some = ve["edges"].get("Some")
                if some:
                    # every path from the Some edge back to next() passes a drop call with the item and the parameter
                    good = [d for d in drops if b.arg_origin(d, 1) == ("param", 2, ()) and b.depends_on_call(b.arg_origin(d, 0), nbb)]
                    ok2, wit = b.must_pass(some[1], good, goals=[nbb] + b.returns())
                    ok = ok and ok2 and bool(good)
                    if not (ok2 and good):
                        detail = "an iteration of the table walk can skip AnyStorage::drop(item, deleted): %s" % b.fmt_path(wit)
        ctx.ob("C05-R3", "delete_components drops the batch in every table entry", ok, b.loc(), "" if ok else detail)
    ad = [b for b in facts.bodies if b.trait_item == "storage::AnyStorage::drop" and base_ty(b.self_ty or "") == "storage::MaskedStorage"]
    ctx.anchor("C05-R3", "<MaskedStorage<T> as AnyStorage>::drop", ad)
    from ..summaries import entity_of_index
    for b in ad:
        nexts = [bb for bb, t in b.calls() if t["callee"].get("path") == "std::iter::Iterator::next"]
        calls = [bb for bb, t in b.calls() if any(tb.name == "drop" and not tb.trait_item and base_ty(tb.self_ty or "") == "storage::MaskedStorage"
                                                   for tb in facts.targets(t["callee"]))]
        ok = bool(nexts) and bool(calls)
        detail = "no loop calling MaskedStorage::drop(id)"
        if ok:
            nbb = nexts[0]
            it_roots = b.roots(b.arg_origin(nbb, 0))
            ok = ("param", 2, ()) in it_roots
            detail = "the loop does not iterate the deleted-entities parameter"
            for ve in b.variant_edges(lambda so: so == ("call", nbb, ())):
                some = ve["edges"].get("Some")
                if some:
                    good = []
                    for d in calls:
                        x = entity_of_index(b, b.arg_origin(d, 1))
                        if x is not None and b.depends_on_call(x, nbb) and b.arg_origin(d, 0) == ("param", 1, ()):
                            good.append(d)
                    ok2, wit = b.must_pass(some[1], good, goals=[nbb] + b.returns())
                    if not (ok2 and good):
                        ok = False
                        detail = "an element of the batch is not dropped from the storage: %s" % b.fmt_path(wit)
        ctx.ob("C05-R3", "AnyStorage::drop removes the id of every element", ok, b.loc(), "" if ok else detail)


def r4(ctx, facts):
    callers = facts.callers()

    def who(pred):
        out = set()
        for p, lst in callers.items():
            if any(pred(x) for x in facts.by_path[p]):
                for cb, bb in lst:
                    out.add(cb.path)
        return out
    allowed = {"world::world_ext::WorldExt::delete_entities", "world::world_ext::WorldExt::maintain"}
    c1 = who(lambda b: b.trait_item == "world::world_ext::WorldExt::delete_components")
    pg = purgers(facts)
    # a wrapper that only forwards its parameter to the purge is as good as its own callers
    for w in list(c1):
        if w in pg:
            c1.discard(w)
            c1 |= {cb.path for cb, bb in callers.get(w, [])}
    # further deletion entry points are held to the generic part of R2 (every purge site justified by a kill()/merge() result), so they
    # are not a who-may-call violation by themselves; what stays forbidden is a caller that is no deletion path at all (no kill / merge)
    def deletes(c):
        kp = killers(facts)
        return any((t["callee"].get("resolved") or t["callee"].get("path")) in kp for x in facts.by_path[c] for _, t in x.calls())
    bad = [c for c in c1 if not any(x.trait_item in allowed for x in facts.by_path[c]) and not deletes(c)]
    ctx.ob("C05-R4", "callers of delete_components", not bad and bool(c1), "", "" if not bad else "unexpected caller(s) of the purge: %s" % bad)
    c2 = who(lambda b: b.trait_item == "storage::AnyStorage::drop")
    # the virtual call site itself
    c2 |= {b.path for b in facts.bodies for _, t in b.calls() if t["callee"].get("path") == "storage::AnyStorage::drop"}
    bad = [c for c in c2 if not any(x.trait_item == "world::world_ext::WorldExt::delete_components" for x in facts.by_path[c])]
    ctx.ob("C05-R4", "callers of AnyStorage::drop", not bad and bool(c2), "", "" if not bad else "unexpected caller(s): %s" % bad)
    is_md = lambda b: b.name == "drop" and not b.trait_item and base_ty(b.self_ty or "") == "storage::MaskedStorage" and b.argc == 2
    c3 = who(is_md)
    bad = [c for c in c3 if not any(x.trait_item == "storage::AnyStorage::drop" for x in facts.by_path[c])]
    # A caller other than the purge is a *checked accessor* (the destroy-in-place twin of Storage::remove), not a second purge, when every
    # id it hands to MaskedStorage::drop is the index of a handle whose own aliveness test guards the call (the C03-R1 condition): it can
    # only touch the component of the live entity the user named.  Anything else that reaches the per-index purge is reported.
    from ..summaries import AliveClass, entity_of_index
    alive = AliveClass(facts)
    still = []
    for c in bad:
        ok_all = True
        for cb in facts.by_path[c]:
            for bb, t in cb.calls():
                if not any(is_md(tb) for tb in facts.targets(t["callee"])):
                    continue
                x = entity_of_index(cb, cb.arg_origin(bb, 1))
                if x is None or not alive.guarded(cb, bb, x)[0]:
                    ok_all = False
        if not ok_all:
            still.append(c)
    bad = still
    ctx.ob("C05-R4", "callers of MaskedStorage::drop(id)", not bad and bool(c3), "", "" if not bad else "unexpected caller(s): %s" % bad)
