"""C16 - a change set accumulates per entity and applies each sum exactly once (clause)."""
from ..core import base_ty
from ..joins import join_impls, method_body
from ..summaries import entity_of_index
from .. import witness

ARMED = True
TECHNIQUE = "guard-dominance / must-pass-through / value-origin over the MIR of ChangeSet::add and its collectors, sibling table of the three join flavours, compile-fail witness"
EXPLANATION = (
    "R1 (add): every raw access in ChangeSet::add uses the index of the entity parameter; on the true-edge of mask.contains(that index) the value "
    "parameter is the right operand of AddAssign::add_assign whose left operand is inner.get_mut(that index); on the false-edge it is moved into "
    "inner.insert(that index, _) followed by mask.add(that index); no path to return avoids both (the amount is neither dropped nor applied twice). "
    "R2 (collectors): FromIterator::from_iter and Extend::extend consume their iterator by a next() loop whose only exit is the None edge and in "
    "which every item's entity and amount reach add() on every path; from_iter starts from an empty set and returns the one it filled. R3 (joins): "
    "the shared and mutable impls return the set's own mask with its own storage and fetch with get/get_mut/shared_get_mut of the index parameter; "
    "the consuming impls move mask and storage out of self and fetch with remove(index) - so each accumulated amount is yielded by value once. R4: every impl of RepeatableLendGet over join members (MaybeJoin<T>, the tuples) requires RepeatableLendGet of every member, so the consuming join cannot be made repeat-gettable by wrapping it. W4 (incl. the maybe() and tuple forms): "
    "a by-value change set is not RepeatableLendGet (the by-reference twin is)."
)
NOT_DECIDED = "the sums themselves (AddAssign of the amount type, arrival order inside one entity) and the dense storage's value bookkeeping"
TRUSTED = ["rustc nightly MIR", "hibitset BitSet", "sa/ analyses"]
LEVEL_TEXT = ("Clause only: that every amount handed to a change set reaches exactly one of `+=` into the entity's slot or a first insert, that the "
              "collectors feed every pair, and that the consuming join removes what it yields, is decided on all paths. The arithmetic is not.")

US = "storage::UnprotectedStorage"


def configs(tier):
    return ["A"] if tier == "quick" else ["A", "F", "N", "FN"]


def run(ctx):
    for r, t in [("C16-R1", "add(): += into the occupied slot, insert + mask bit when vacant, always for the entity's own index"),
                 ("C16-R2", "collect / extend feed every pair to add()"), ("C16-R3", "join flavours fetch from the set's own mask and storage; consuming join removes"),
                 ("C16-R4", "join wrappers are repeat-gettable only if every member is (so the consuming join stays once-only inside maybe() / tuples)")]:
        ctx.rule(r, t)
    for cfg in configs(ctx.tier):
        facts = ctx.xfacts(cfg)
        r1(ctx, facts)
        r2(ctx, facts)
        r3(ctx, facts)
        r4(ctx, facts)
    witness.run_set(ctx, "C16", ["w4_changeset_by_value_not_repeatable", "w4_maybe_changeset_by_value_not_repeatable", "w4_tuple_changeset_by_value_not_repeatable"])


def r1(ctx, facts):
    bs = [b for b in facts.methods_named("changeset::ChangeSet", "add") if not b.trait_item]
    ctx.anchor("C16-R1", "ChangeSet::add", bs)
    for b in bs:
        x = ("param", 2, ())
        val = ("param", 3, ())
        # all index operands are the entity's own index
        bad = []
        for bb, t in b.calls():
            c = t["callee"]
            if c.get("path", "").startswith(US + "::") or (c.get("name") in ("contains", "add", "remove") and "BitSet" in c.get("path", "")):
                if entity_of_index(b, b.arg_origin(bb, 1)) != x:
                    bad.append("%s at %s" % (c["path"], b.loc(bb)))
        ctx.ob("C16-R1", "add() touches only the entity's own index", not bad, b.loc(), "" if not bad else "index is not the id of the entity parameter: %s" % bad)
        edges = b.bool_guard_edges(lambda gbb, gt: gt["callee"].get("name") == "contains" and b.canon(b.arg_origin(gbb, 0)) == ("param", 1, ("mask",)))
        ctx.ob("C16-R1", "add() branches on mask.contains", bool(edges), b.loc(), "" if edges else "no mask test")
        if not edges:
            continue
        adds = [bb for bb, t in b.calls() if t["callee"].get("path") == "std::ops::AddAssign::add_assign" and b.arg_origin(bb, 1) == val and
                any(d[0] == "call" and b.term(d[1])["callee"].get("path") == US + "::get_mut" and b.canon(b.arg_origin(d[1], 0)) == ("param", 1, ("inner",))
                    for d in b.deps(b.arg_origin(bb, 0)))]
        ins = [bb for bb, t in b.calls() if t["callee"].get("path") == US + "::insert" and b.arg_origin(bb, 2) == val and b.canon(b.arg_origin(bb, 0)) == ("param", 1, ("inner",))]
        for e in edges:
            ok, wit = b.must_pass(e["true_edge"][1], adds)
            only = all(i not in b.reachable(e["true_edge"][1]) for i in ins)
            ctx.ob("C16-R1", "occupied: amount is += into the existing slot", ok and only and bool(adds), b.loc(e["switch"]),
                   "" if ok and only and adds else "on the occupied edge the amount is not added to the slot of that entity (overwritten, inserted again or dropped): %s" % b.fmt_path(wit))
            ok2, wit2 = b.must_pass(e["false_edge"][1], ins)
            only2 = all(a not in b.reachable(e["false_edge"][1]) for a in adds)
            ctx.ob("C16-R1", "vacant: amount is inserted", ok2 and only2 and bool(ins), b.loc(e["switch"]),
                   "" if ok2 and only2 and ins else "on the vacant edge the amount is not moved into a first insert: %s" % b.fmt_path(wit2))
            for i in ins:
                madd = [bb for bb, t in b.calls() if t["callee"].get("path") == "hibitset::BitSet::add" and b.canon(b.arg_origin(bb, 0)) == ("param", 1, ("mask",))]
                ok3, _ = b.must_pass(b.term(i)["target"], madd) if madd else (False, None)
                ctx.ob("C16-R1", "vacant: the mask bit is set after the insert", ok3, b.loc(i), "" if ok3 else "first insert without setting the entity's mask bit: the amount is never joined")


def r2(ctx, facts):
    bodies = [b for b in facts.bodies if base_ty(b.self_ty or "") == "changeset::ChangeSet" and b.trait_item in ("std::iter::FromIterator::from_iter", "std::iter::Extend::extend")]
    ctx.floor("C16-R2", "collector impls", len(bodies), 2)
    ext = [b for b in bodies if b.trait_item.endswith("Extend::extend")]
    for b in bodies:
        nexts = [bb for bb, t in b.calls() if t["callee"].get("path") == "std::iter::Iterator::next"]
        if not nexts and b.trait_item.endswith("from_iter") and ext:
            # from_iter may hand its iterator to the set's own Extend impl (examined on its own): a fresh set, the iterator parameter, every path
            dl = [bb for bb, t in b.real_calls() if any(x in ext or x.path == ext[0].path for x in facts.targets(t["callee"]))]
            good = [bb for bb in dl if b.receiver_root(b.arg_origin(bb, 1)) == ("param", 1, ()) and
                    b.call_of(b.arg_origin(bb, 0)) and b.call_of(b.arg_origin(bb, 0))[1].get("name") in ("new", "default")]
            okd = bool(good) and b.must_pass(0, good)[0] and len({b.site(x) for x in dl}) == 1
            ro = b.ret_origins()
            okr = bool(ro) and all(r == b.arg_origin(good[0], 0) for r in ro) if good else False
            ctx.ob("C16-R2", "%s consumes its iterator with a plain loop" % b.path, okd and okr, b.loc(),
                   "" if okd and okr else "from_iter neither loops over its iterator nor hands it (once, on every path) to the set's Extend impl and returns that set "
                   "(delegations %d, well-formed %d, returns the filled set: %s)" % (len(dl), len(good), okr))
            continue
        others = [t["callee"]["name"] for bb, t in b.calls() if t["callee"].get("trait") == "std::iter::Iterator" and t["callee"].get("name") not in ("next",)]
        ok = bool(nexts) and not [o for o in others if o not in ("for_each", "size_hint")]
        ctx.ob("C16-R2", "%s consumes its iterator with a plain loop" % b.path, ok, b.loc(), "" if ok else "iterator consumers: next=%d others=%s" % (len(nexts), others))
        if not nexts:
            continue
        ves = b.variant_edges(lambda so: so[0] == "call" and so[1] in nexts and not so[2])
        none_edges = {ve["edges"]["None"] for ve in ves if "None" in ve["edges"]}
        rets = b.returns()
        seen = b.reachable(0, removed=none_edges)
        ok = bool(none_edges) and not any(r in seen for r in rets)
        ctx.ob("C16-R2", "%s stops only when the iterator is exhausted" % b.path, ok, b.loc(nexts[0]), "" if ok else "the loop can be left early: pairs would be silently ignored")
        for ve in ves:
            some = ve["edges"].get("Some")
            if not some:
                continue
            nbb = ve["org"][1]
            adds = [bb for bb, t in b.calls() if any(x.name == "add" and base_ty(x.self_ty or "") == "changeset::ChangeSet" for x in facts.targets(t["callee"]))
                    and b.depends_on_call(b.arg_origin(bb, 1), nbb, ("as Some",)) and b.depends_on_call(b.arg_origin(bb, 2), nbb, ("as Some",))]
            ok2, wit = b.must_pass(some[1], adds, goals=nexts + rets)
            again = any(a in b.reachable(b.term(a)["target"], stop=nexts) for a in adds)
            ctx.ob("C16-R2", "%s adds every pair exactly once" % b.path, ok2 and bool(adds) and not again, b.loc(ve["switch"]),
                   "" if ok2 and adds and not again else "a pair can be skipped or added twice: %s" % b.fmt_path(wit))
        if b.trait_item.endswith("from_iter"):
            ro = b.origin({"local": 0, "proj": []})
            okr = ro[0] == "call" and any(x.name in ("new", "default") for x in facts.targets(b.term(ro[1])["callee"]) or []) or \
                (ro[0] == "call" and b.term(ro[1])["callee"].get("name") in ("new", "default"))
            ctx.ob("C16-R2", "from_iter returns the fresh set it filled", okr, b.loc(), "" if okr else "returned value origin %r" % (ro,))


def r3(ctx, facts):
    by = join_impls(facts)
    n = 0
    for st, m in by.items():
        if base_ty(st) != "changeset::ChangeSet":
            continue
        consuming = not st.startswith("&")
        for tname, im in m.items():
            n += 1
            o, g = method_body(facts, im, "open"), method_body(facts, im, "get")
            ms, vs = o.ret_origins(0), o.ret_origins(1)
            ok = bool(ms) and all(o.canon(mo) == ("param", 1, ("mask",)) for mo in ms) and \
                all({r for r in o.roots(vo) if r[0] == "param"} == {("param", 1, ("inner",))} for vo in vs)
            ctx.ob("C16-R3", "%s %s::open hands out the set's own mask and storage" % (st, tname), ok, o.loc(), "" if ok else "open() does not return (self.mask, self.inner)")
            fetch = [(bb, t) for bb, t in g.real_calls() if t["args"] and len(t["args"]) >= 2]
            names = {t["callee"].get("name") for bb, t in fetch}
            okg = bool(fetch) and all(g.arg_origin(bb, 1) == ("param", 2, ()) for bb, t in fetch) and \
                (names == {"remove"} if consuming else names <= {"get", "get_mut", "shared_get_mut"})
            ctx.ob("C16-R3", "%s %s::get %s" % (st, tname, "removes the amount it yields" if consuming else "borrows the amount of the index"), okg, g.loc(),
                   "" if okg else "get() calls %s" % sorted(names))
    ctx.floor("C16-R3", "ChangeSet join impls", n, 6)


RLG = "join::lend_join::RepeatableLendGet"


def r4(ctx, facts):
    """P6: every impl of RepeatableLendGet whose self type is built from type parameters (MaybeJoin<T>, the tuples) requires
    RepeatableLendGet of each of them.  Otherwise `change_set.maybe()` - or a tuple containing the by-value change set - could be asked
    for the same entity twice, and the consuming get() would remove a second time through a stale dense index."""
    import re
    n = 0
    for im in facts.impls_of(RLG):
        st = im["self_ty"]
        params = []
        if st.startswith("(") and st.endswith(")"):
            params = [x.strip() for x in st[1:-1].split(",") if x.strip()]
        else:
            m = re.match(r"^[\w:]+<(.*)>$", st)
            if m:
                params = [x.strip() for x in m.group(1).split(",")]
        params = [x for x in params if re.match(r"^[A-Z][A-Za-z0-9]*$", x)]      # bare type parameters only
        # members = parameters that are required to be joinable at all
        members = [x for x in params if any(pr.startswith(x + ": join::") for pr in im["preds"])]
        if not members:
            continue
        n += 1
        missing = [x for x in members if (x + ": " + RLG) not in im["preds"]]
        ctx.ob("C16-R4", "RepeatableLendGet for %s requires it of every member" % st, not missing, "%s:%d" % (im["file"], im["line"]),
               "" if not missing else "member(s) %s need not be RepeatableLendGet: a consuming join wrapped in this type can be asked for the same entity twice" % missing)
    ctx.floor("C16-R4", "RepeatableLendGet impls over join members", n, 10)
