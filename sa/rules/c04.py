"""C04 - every storage kind behaves as the same map (clause: mask discipline)."""
from ..core import base_ty, generic_args
from ..summaries import entity_of_index
from . import _identity

ARMED = True
TECHNIQUE = "pairing / guard-dominance / value-origin rules over MIR for the mask-vs-storage discipline (clause of the property, not the map equivalence)"
EXPLANATION = (
    "Decides the first mechanism the property names - 'MaskedStorage pairs every raw insert/remove with the mask update; raw accessors are only "
    "called for indices in the mask' - not the map equivalence. R1 (pairing): every non-delegating raw insert is followed on every path to return "
    "by BitSet::add(sibling mask, same id); every non-delegating raw remove/drop is reachable only through the true-edge of BitSet::remove(sibling "
    "mask, same id) (or contains followed by remove), and from that true-edge every path to return passes the raw remove/drop. R2 (raw access under "
    "the mask): every raw get/get_mut/shared_get_mut called from a safe function is justified by an enumerated idiom: (a) dominated by the "
    "true-edge of contains(sibling mask, same index); (b) the index is a field of an item type all of whose constructors are mask-guarded (R3); "
    "(c) dominated by an insertion of the same id in the same body; calls from an unsafe fn pass the obligation to its callers. R3 (constructors): "
    "OccupiedEntry is built only on the true-edge and VacantEntry only on the false-edge of mask.contains(same id); paired restricted items only "
    "inside a join get(). R4 (drain): Drain::get removes through MaskedStorage::remove with its index parameter. R5 (the replaced value is handed "
    "back): on the overwrite path of Storage::insert / OccupiedEntry::insert the old value is exchanged with the new one by mem::swap/replace and "
    "the function returns it; the fresh path returns None after not_present_insert. R6 (mask written whole only with clean): a call that empties an "
    "owner's mask (mem::take/replace/swap, BitSet::clear on the field) is followed on every path by clean() of the sibling storage. R7 (parallel "
    "arrays reset together): every Vec field a storage's insert pushes onto is cleared by its clean(). R8 (accessor siblings): within one storage impl, "
    "get, get_mut and shared_get_mut compute the position they read in the component container by the same chain of operations from the index "
    "parameter (sibling agreement on the abstracted origin of the container index; a 'fast path' that indexes directly in one accessor only is a "
    "disagreement). R9 (membership observers): the handle-less &self observers of Storage (count, is_empty, mask) compute their answer from the storage's mask and from no other state of the storage (a cached count kept beside the mask is second state that every path, including unwind paths, would have to keep in step). R10 (the key is the whole index): no body of the storage modules applies an integer cast narrower than 32 bits to the index it is handed (origin through copies and casts only - `id % 64 as u8` is a bit position, not a key): a narrowed index makes two far-apart entities share a slot. W10: outside the crate the raw storage is only "
    "reachable mutably through an unsafe fn and the mask / inner fields of MaskedStorage are private, so the discipline cannot be bypassed by safe user code."
)
NOT_DECIDED = ("equality with a map for all operation sequences: return VALUES, dense swap_remove index fix-up, default-filled gaps, slice views "
               "(arithmetic over indices; rejected as brittle proxies in DESIGN.md section 5)")
TRUSTED = ["rustc nightly MIR", "hibitset BitSet::{add,remove,contains} semantics by name", "sa/ analyses"]
LEVEL_TEXT = ("Clause only: the mask discipline that makes every storage kind safe to treat as a map is decided on all paths (pairing of raw "
              "operations with mask updates, raw access only under a mask test or an unsafe contract, entry/item constructors under the right test, "
              "overwrite hands back the old value). That the eight storage kinds then compute map-equal results is value-dependent and NOT decided.")

US = "storage::UnprotectedStorage"
SG = "storage::SharedGetMutStorage"
RAW_READ = {US + "::get", US + "::get_mut", SG + "::shared_get_mut"}
RAW_INS = US + "::insert"
RAW_DEL = {US + "::remove", US + "::drop"}
EMPTYING = {"take", "replace", "swap"}


def configs(tier):
    return ["A"] if tier == "quick" else ["A", "F", "N", "FN"]


def in_storage_impl(b):
    return bool(b.trait_item and (b.trait_item.startswith(US + "::") or b.trait_item.startswith(SG + "::"))) or \
        (b.trait_item is None and b.path.startswith(US + "::"))


def parent(org):
    if org[0] in ("param", "call") and org[-1]:
        return org[:-1] + (org[-1][:-1],)
    return None


class MaskPredicates:
    """bool functions f(self, .., x, ..) that return true only if contains(self.<path>.mask, index of x) holds
    (wrapper summary, like the is_alive class): path -> (mask projection below param 1, param number of x, by_entity)"""

    def __init__(self, facts):
        self.f = facts
        self.members = {}
        for b in facts.bodies:
            if b.ltype.get(0) != "bool" or b.argc < 2 or b.kind == "Closure":
                continue
            for bb, t in b.calls():
                c = t["callee"]
                if c.get("name") != "contains" or "BitSet" not in (c.get("path", "") + (c.get("self_ty") or "")):
                    continue
                mo = b.canon(b.arg_origin(bb, 0))
                io = b.arg_origin(bb, 1)
                x = entity_of_index(b, io)
                xo = x if x is not None else io
                if mo[0] != "param" or mo[1] != 1 or xo[0] != "param" or xo[2]:
                    continue
                edges = b.bool_guard_edges(lambda gbb, gt: gbb == bb)
                removed = {e["true_edge"] for e in edges}
                ok = True
                for d in b.defs().get(0, []):
                    if d[0] == "call":
                        if d[1] == bb:
                            continue
                        if d[1] in b.reachable(0, removed=removed):
                            ok = False
                    else:
                        from ..core import rv_const_bool
                        if rv_const_bool(d[4]) is False:
                            continue
                        if d[1] in b.reachable(0, removed=removed):
                            ok = False
                if ok:
                    self.members[b.path] = (mo[2], xo[1], x is not None)

    def as_test(self, b, bb, t):
        """if the call is a summarised predicate: (canonical mask origin, index key) it implies"""
        c = t["callee"]
        p = c.get("resolved") if c.get("resolved") in self.members else c.get("path")
        if p not in self.members:
            return None
        proj, k, by_ent = self.members[p]
        from ..core import extend_org
        so = b.canon(b.arg_origin(bb, 0))
        mo = extend_org(so, proj)
        xo = b.arg_origin(bb, k - 1)
        return mo, (("entity", xo) if by_ent else xo)


MP = {}


def mask_tests(b, storage_org, idx_key, names=("contains",)):
    """guard edges of BitSet tests on a mask that has the same parent object as the storage, for the same index
    (directly, or through a summarised predicate wrapper when names == contains)"""
    sp = parent(b.canon(storage_org))
    mp = MP.get(id(b.facts))

    def is_test(gbb, gt):
        c = gt["callee"]
        if mp is not None and "contains" in names:
            r = mp.as_test(b, gbb, gt)
            if r is not None:
                return parent(r[0]) == sp and sp is not None and r[1] == idx_key
        if c.get("name") not in names or "BitSet" not in (c.get("path", "") + (c.get("self_ty") or "")):
            return False
        mo = b.canon(b.arg_origin(gbb, 0))
        if sp is None or not under(mo, sp):
            return False
        return index_key(b, b.arg_origin(gbb, 1)) == idx_key
    return b.bool_guard_edges(is_test)


def under(mask_org, owner):
    """the mask lives in the object that owns the storage: directly beside it, or inside a private sub-struct of that owner
    (`self.membership.mask` beside `self.cell`)"""
    if parent(mask_org) == owner:
        return True
    return mask_org[0] == owner[0] and mask_org[1] == owner[1] and len(mask_org) > 2 and len(owner) > 2 and \
        isinstance(mask_org[2], tuple) and isinstance(owner[2], tuple) and len(mask_org[2]) > len(owner[2]) and mask_org[2][:len(owner[2])] == owner[2]


def same_storage(b, storage_self_org, raw_self_org):
    """the raw accessor's receiver is the `data.inner` of the Storage the checked call was made on"""
    r1_ = {r[:2] + (tuple(r[2][:1]) if r[0] == "param" and r[2] and r[2][0] in ("data", "entities") else tuple(r[2][:0]),) if r[0] == "param" else r for r in b.roots(storage_self_org)}
    r2_ = {r[:2] + ((),) if r[0] == "param" else r for r in b.roots(raw_self_org)}
    return bool({x[:2] for x in r1_ if x[0] == "param"} & {x[:2] for x in r2_ if x[0] == "param"})


def index_key(b, org):
    x = entity_of_index(b, org)
    return ("entity", x) if x is not None else org


def run(ctx):
    for r, t in [("C04-R1", "raw insert/remove paired with the mask update"), ("C04-R2", "raw access only under the mask (enumerated idioms)"),
                 ("C04-R3", "entry / paired-item constructors under the right mask test"), ("C04-R4", "drain removes through the masked storage"),
                 ("C04-R5", "overwrite hands back the replaced value"), ("C04-R6", "an owner's mask is emptied only together with clean()"),
                 ("C04-R7", "parallel arrays of a storage are reset together"),
                 ("C04-R8", "get / get_mut / shared_get_mut of a storage locate the slot the same way"),
                 ("C04-R9", "membership observers (count, is_empty, mask) are computed from the mask"),
                 ("C04-R10", "no storage narrows the entity index it is keyed on"),
                 ("C04-R11", "a two-way redirect table never compares a dense slot with an entity index")]:
        ctx.rule(r, t)
    ctx.exception("Drop impls of rollback guards (types every construction of which is mem::forget-ed on all normal paths; today: RemoveOnDrop in not_present_insert)",
                  "R1: the destructor only runs while unwinding between the raw insert and the forget; it undoes an insert whose mask update unwound")
    ctx.exception("<changeset::ChangeSet<T> as join::Join>::get / LendJoin::get", "R1: consuming join, the mask is owned by the iterator (C16)")
    for cfg in configs(ctx.tier):
        facts = ctx.xfacts(cfg)
        MP[id(facts)] = MaskPredicates(facts)
        ctx.note("[%s] mask-test wrappers: %s" % (cfg, sorted(MP[id(facts)].members)))
        r1(ctx, facts)
        item_fields = r3(ctx, facts)
        r2(ctx, facts, item_fields)
        r4(ctx, facts)
        r5(ctx, facts)
        r6(ctx, facts)
        r7(ctx, facts)
        r11(ctx, facts)
        r8(ctx, facts)
        r9(ctx, facts)
        _identity.rule(ctx, facts, "C04-R10", lambda b: b.path.lstrip("<").startswith(("storage::", "changeset::")), 6,
                       "a far-apart entity then locates, overwrites or removes another entity's slot")
    from .. import witness
    witness.run_set(ctx, "C04", ["w10_unprotected_storage_mut_needs_unsafe", "w10_masked_storage_fields_private"])


def r1(ctx, facts):
    nins = ndel = 0
    from ..summaries import forgotten_guards
    guards = forgotten_guards(facts)
    for b in facts.bodies:
        if in_storage_impl(b):
            continue
        for bb, t in b.calls():
            p = t["callee"].get("path")
            if p == RAW_INS:
                so, io = b.arg_origin(bb, 0), index_key(b, b.arg_origin(bb, 1))
                sp = parent(b.canon(so))
                adds = [abb for abb, at in b.calls() if at["callee"].get("path") == "hibitset::BitSet::add"
                        and parent(b.canon(b.arg_origin(abb, 0))) == sp and index_key(b, b.arg_origin(abb, 1)) == io]
                nins += 1
                ok, wit = b.must_pass(t["target"], adds) if adds and t.get("target") is not None else (False, None)
                ctx.ob("C04-R1", "%s raw insert -> mask.add" % b.path, ok, b.loc(bb),
                       "" if ok else "a value is put into the raw storage without its mask bit being set on path %s" % b.fmt_path(wit))
            elif p in RAW_DEL:
                if b.trait_item == "std::ops::Drop::drop" and base_ty(b.self_ty or "") in guards:
                    ctx.ob("C04-R1", "%s raw remove (named exception)" % b.path, True, b.loc(bb), nontrivial=False)
                    continue
                if b.trait_item and b.trait_item.split("::")[-1] == "get" and base_ty(b.self_ty or "") == "changeset::ChangeSet":
                    ctx.ob("C04-R1", "%s raw remove (named exception)" % b.path, True, b.loc(bb), nontrivial=False)
                    continue
                so, io = b.arg_origin(bb, 0), index_key(b, b.arg_origin(bb, 1))
                ndel += 1
                edges = mask_tests(b, so, io, names=("remove",))
                removed = {e["true_edge"] for e in edges}
                ok = bool(edges) and bb not in b.reachable(0, removed=removed)
                ctx.ob("C04-R1", "%s raw %s under mask.remove" % (b.path, t["callee"]["name"]), ok, b.loc(bb),
                       "" if ok else "a value is taken out of / destroyed in the raw storage without its mask bit having been cleared by BitSet::remove "
                       "on the sibling mask for the same index")
                for e in edges:
                    ok2, wit = b.must_pass(e["true_edge"][1], [bb])
                    ctx.ob("C04-R1", "%s mask.remove true-edge reaches the raw %s" % (b.path, t["callee"]["name"]), ok2, b.loc(e["switch"]),
                           "" if ok2 else "mask bit cleared but the value stays in the raw storage on path %s" % b.fmt_path(wit))
    ctx.floor("C04-R1", "non-delegating raw insert sites", nins, 2)
    ctx.floor("C04-R1", "non-delegating raw remove/drop sites", ndel, 2)


def r3(ctx, facts):
    """returns {(adt, field)} of item types whose constructors are mask-guarded"""
    item_fields = set()
    sites = {"occ": 0, "vac": 0, "paired": 0}
    for b in facts.bodies:
        for bid, blk in b.blocks.items():
            for s in blk["stmts"]:
                rv = s["rv"]
                if rv["k"] != "aggregate" or "adt" not in rv:
                    continue
                a = rv["adt"]
                line = s.get("line")
                if a in ("storage::entry::OccupiedEntry", "storage::entry::VacantEntry"):
                    adt = facts.adts[a]
                    names = [f["name"] for f in adt["variants"][0]["fields"]]
                    ido = index_key(b, b.operand_origin(rv["ops"][names.index("id")]))
                    sto = b.operand_origin(rv["ops"][names.index("storage")])
                    # mask test: contains(<storage>.data.mask, id)
                    def is_test(gbb, gt):
                        c = gt["callee"]
                        if c.get("name") != "contains" or "BitSet" not in c.get("path", ""):
                            return False
                        mo = b.canon(b.arg_origin(gbb, 0))
                        return mo[-1][-1:] == ("mask",) and mo[:2] == b.canon(sto)[:2] and index_key(b, b.arg_origin(gbb, 1)) == ido
                    edges = b.bool_guard_edges(is_test)
                    occ = a.endswith("OccupiedEntry")
                    removed = {e["true_edge" if occ else "false_edge"] for e in edges}
                    ok = bool(edges) and bid not in b.reachable(0, removed=removed)
                    sites["occ" if occ else "vac"] += 1
                    ctx.ob("C04-R3", "%s builds %s" % (b.path, a.split("::")[-1]), ok, b.loc(line=line),
                           "" if ok else "%s is constructed on a path that is not the %s-edge of mask.contains(same id): its methods use the raw storage "
                           "unchecked" % (a.split("::")[-1], "true" if occ else "false"))
                    item_fields.add((a, "id"))
                elif a.startswith("storage::restrict::PairedStorage"):
                    ok = bool(b.trait_item) and b.trait_item.split("::")[-1] == "get" and b.trait_item.split("::")[-2] in ("Join", "LendJoin", "ParJoin")
                    sites["paired"] += 1
                    ctx.ob("C04-R3", "%s builds %s" % (b.path, a.split("::")[-1]), ok, b.loc(line=line),
                           "" if ok else "a paired restricted item is built outside a join get(): its index was not checked against the mask")
                    item_fields.add((a, "index"))
    ctx.floor("C04-R3", "OccupiedEntry constructions", sites["occ"], 1)
    ctx.floor("C04-R3", "VacantEntry constructions", sites["vac"], 1)
    ctx.floor("C04-R3", "paired item constructions", sites["paired"], 4)
    return item_fields


def r2(ctx, facts, item_fields):
    n = 0
    unsafe_fwd = []
    for b in facts.bodies:
        if in_storage_impl(b):
            continue
        for bb, t in b.calls():
            p = t["callee"].get("path")
            if p not in RAW_READ:
                continue
            if b.unsafe:
                unsafe_fwd.append(b.path)
                continue
            n += 1
            so, io = b.arg_origin(bb, 0), b.arg_origin(bb, 1)
            ik = index_key(b, io)
            how = None
            # (a) contains on the sibling mask
            edges = mask_tests(b, so, ik, names=("contains",))
            if edges and bb not in b.reachable(0, removed={e["true_edge"] for e in edges}):
                how = "(a) under contains(sibling mask, same index)"
            # (b) index is a guarded item field
            if how is None and io[0] == "param" and io[1] == 1 and len(io[2]) == 1 and (base_ty(b.ltype[1]), io[2][0]) in item_fields:
                how = "(b) index field of an item type whose constructors are mask-guarded"
            # (c) dominated by an insertion of the same id
            if how is None:
                ins = [ibb for ibb, it in b.calls() if it["callee"].get("name") in ("not_present_insert", "insert") and
                       any(index_key(b, b.operand_origin(a)) == ik for a in it["args"][1:2]) and ibb != bb]
                if ins and bb not in b.reachable(0, stop=ins):
                    how = "(c) dominated by an insertion of the same id"
            # (c') on the Ok edge of the CHECKED insert of the same entity: Storage::insert(e, v) answers Ok only after it put `e.id()` into the
            # mask or found it there (benign C03-p1: get_mut_or_default inserts the default, then takes the slot without asking the mask again)
            if how is None and ik[0] == "entity":
                okedges = set()
                for ibb, it in b.calls():
                    if it["callee"].get("path") == "storage::Storage::<'e, T, D>::insert" and len(it["args"]) > 1 and \
                            b.arg_origin(ibb, 1) == ik[1] and same_storage(b, b.arg_origin(ibb, 0), so):
                        for ve in b.variant_edges(lambda o, ibb=ibb: o == ("call", ibb, ())):
                            if "Ok" in ve["edges"]:
                                okedges.add(ve["edges"]["Ok"])
                if okedges and bb not in b.reachable(0, removed=okedges):
                    how = "(c') on the Ok edge of Storage::insert of the same entity into the same storage"
            ctx.ob("C04-R2", "%s -> %s" % (b.path, t["callee"]["name"]), how is not None, b.loc(bb),
                   how or "raw accessor called from a safe function for an index that is not known to be in the mask (none of the accepted idioms a/b/c applies)")
    ctx.floor("C04-R2", "raw read accessor sites in safe functions", n, 9)
    ctx.note("[%s] unsafe fns forwarding the mask obligation to their callers: %s" % (facts.config, sorted(set(unsafe_fwd))))
    # callers of unsafe forwarding fns from safe code: not_present_insert needs the false edge of contains
    for b in facts.bodies:
        if b.unsafe or in_storage_impl(b):
            continue
        for bb, t in b.calls():
            tg = [x for x in facts.targets(t["callee"]) if x.name == "not_present_insert"]
            if not tg:
                continue
            so = b.arg_origin(bb, 0)
            ik = index_key(b, b.arg_origin(bb, 1))
            ok = False
            why = ""
            if b.arg_origin(bb, 1)[0] == "param" and b.arg_origin(bb, 1)[2] == ("id",) and (base_ty(b.ltype[1]), "id") in item_fields:
                ok = True
                why = "(b) VacantEntry is only built on the false edge"
            else:
                def is_test(gbb, gt):
                    c = gt["callee"]
                    if c.get("name") != "contains" or "BitSet" not in c.get("path", ""):
                        return False
                    mo = b.canon(b.arg_origin(gbb, 0))
                    return mo[-1][-1:] == ("mask",) and mo[:2] == b.canon(so)[:2] and index_key(b, b.arg_origin(gbb, 1)) == ik
                edges = b.bool_guard_edges(is_test)
                ok = bool(edges) and bb not in b.reachable(0, removed={e["false_edge"] for e in edges})
                why = "" if ok else "first-insert path taken without the mask test saying the index is vacant: an occupied slot is overwritten without dropping / returning its value"
            ctx.ob("C04-R2", "%s -> not_present_insert only when vacant" % b.path, ok, b.loc(bb), why)


def r4(ctx, facts):
    gets = [b for b in facts.bodies if b.name == "get" and b.trait_item and base_ty(b.self_ty or "") == "storage::drain::Drain"]
    ctx.floor("C04-R4", "Drain get() impls", len(gets), 2)
    for b in gets:
        ok = False
        for bb, t in b.calls():
            if any(x.name == "remove" and base_ty(x.self_ty or "") == "storage::MaskedStorage" for x in facts.targets(t["callee"])) and \
                    b.arg_origin(bb, 1) == ("param", 2, ()):
                ok = b.must_pass(0, [bb])[0]
        ctx.ob("C04-R4", "%s removes via MaskedStorage::remove(index)" % b.path, ok, b.loc(),
               "" if ok else "drain does not take the value out through the masked storage (mask and storage would disagree)")
    opens = [b for b in facts.bodies if b.name == "open" and b.trait_item and base_ty(b.self_ty or "") == "storage::drain::Drain"]
    for b in opens:
        # the join mask is a copy, the storage keeps its own
        bad = [b.loc(bb) for bb, t in b.calls() if t["callee"].get("name") in EMPTYING and "mem::" in t["callee"].get("path", "")]
        ctx.ob("C04-R4", "%s leaves the storage's mask in place" % b.path, not bad, b.loc(), "" if not bad else "open() moves the mask out of the storage at %s" % bad)


def r5(ctx, facts):
    targets = [b for b in facts.methods_named("storage::Storage", "insert") if not b.trait_item]
    targets += [b for b in facts.methods_named("storage::entry::OccupiedEntry", "insert")]
    ctx.floor("C04-R5", "overwriting insert bodies", len(targets), 2)
    for b in targets:
        vparams = [i for i in range(2, b.argc + 1) if b.ltype[i] in ("T", "C")]
        if not vparams:
            ctx.ob("C04-R5", "%s value parameter" % b.path, "undetermined", b.loc(), "no component-typed parameter found")
            continue
        v = vparams[-1]
        swaps = []
        for bb, t in b.calls():
            c = t["callee"]
            if c.get("name") in ("swap", "replace") and "mem::" in c.get("path", ""):
                aos = [b.operand_origin(a) for a in t["args"]]
                if ("param", v, ()) in aos and any(any(d[0] == "call" and b.term(d[1])["callee"].get("name") in ("get_mut", "access_mut") for d in b.deps(a)) for a in aos):
                    swaps.append(bb)
        ok = bool(swaps)
        why = "" if ok else "the overwrite path does not exchange the new value with the slot (mem::swap / mem::replace): the old value is dropped instead of handed back"
        if ok:
            # every return reachable from the swap yields the exchanged value
            good = False
            for d in b.defs().get(0, []):
                if d[0] == "stmt":
                    deps = b.deps(b.operand_origin(d[4]["ops"][0])) if d[4]["k"] == "use" and d[4]["ops"] else b.deps(("agg", d[1], d[2], ()))
                    if d[1] in b.reachable(swaps[0]) and (("param", v, ()) in deps or any(x[0] == "call" and x[1] in swaps for x in deps)):
                        # must be Some / the value itself, not None
                        good = True
            ok = good
            why = "" if ok else "after exchanging the values the function does not return the old one"
        ctx.ob("C04-R5", "%s returns the replaced value" % b.path, ok, b.loc(), why)


def r6(ctx, facts):
    n = 0
    for b in facts.bodies:
        for bb, t in b.calls():
            c = t["callee"]
            nm = c.get("name")
            is_empty_call = (nm in EMPTYING and "mem::" in c.get("path", "")) or (nm == "clear" and c.get("path") == "hibitset::BitSet::clear")
            if not is_empty_call:
                continue
            for ai, a in enumerate(t["args"]):
                if not isinstance(a, dict) or not str(a.get("ty", "")).startswith("&mut hibitset::BitSet"):
                    continue
                mo = b.canon(b.operand_origin(a))
                if mo[0] not in ("param",) or mo[-1][-1:] != ("mask",):
                    continue
                n += 1
                cleans = [cbb for cbb, ct in b.calls() if ct["callee"].get("path") == US + "::clean" and parent(b.canon(b.arg_origin(cbb, 0))) == parent(mo)]
                ok, wit = b.must_pass(bb, cleans) if cleans else (False, None)
                ctx.ob("C04-R6", "%s empties %s" % (b.path, ".".join(mo[-1])), ok, b.loc(bb),
                       "" if ok else "the owner's mask is emptied / moved out without cleaning the sibling storage: components stay in the raw storage "
                       "with no mask bit (unreachable, and never destroyed by mask-driven clean)")
    ctx.floor("C04-R6", "mask-emptying sites on an owner's mask", n, 2)


def r7(ctx, facts):
    n = 0
    for im in facts.impls_of(US):
        ins = facts.body(im["items"].get("insert", ""))
        cl = facts.body(im["items"].get("clean", ""))
        if not ins or not cl:
            continue
        pushed = set()
        for bb, t in ins.calls():
            if t["callee"].get("name") in ("push", "push_back", "extend", "insert") and "vec::Vec" in t["callee"].get("path", ""):
                o = ins.arg_origin(bb, 0)
                if o[0] == "param" and o[1] == 1 and len(o[2]) == 1:
                    pushed.add(o[2][0])
        if len(pushed) < 2:
            continue
        n += 1
        cleared = set()
        for bb, t in cl.calls():
            if t["callee"].get("name") in ("clear", "truncate", "drain") and t["args"]:
                o = cl.arg_origin(bb, 0)
                if o[0] == "param" and o[1] == 1 and len(o[2]) == 1 and cl.must_pass(0, [bb])[0]:
                    cleared.add(o[2][0])
        missing = pushed - cleared
        ctx.ob("C04-R7", "%s clean() resets every vector insert() pushes onto" % base_ty(im["self_ty"]), not missing, cl.loc(),
               "" if not missing else "insert() pushes onto %s but clean() does not clear %s: the parallel arrays go out of step after a clear()" % (sorted(pushed), sorted(missing)))
    ctx.floor("C04-R7", "storages with parallel arrays", n, 1)


LOCATE = {"get", "get_mut", "get_unchecked", "get_unchecked_mut", "index", "index_mut", "shared_get_mut", "entry", "get_many_mut"}
TRANSPARENT_NAMES = {"deref", "deref_mut", "borrow", "borrow_mut", "as_ref", "as_mut", "as_slice", "as_mut_slice", "as_ptr", "as_mut_ptr"}


def abst(b, org, depth=0):
    """abstraction of an index origin: the chain of (normalised) operations leading from parameters to the value"""
    if depth > 12:
        return "?"
    k = org[0]
    if k == "param":
        return "P%d%s" % (org[1], "".join("." + x for x in org[2]))
    if k == "const":
        return "c"
    if k == "call":
        t = b.term(org[1])
        nm = t["callee"].get("name") or "?"
        args = [abst(b, b.operand_origin(a), depth + 1) for a in t["args"]]
        if nm in TRANSPARENT_NAMES and args:
            return args[0]
        if nm in LOCATE:
            nm = "at"
        return "%s(%s)" % (nm, ",".join(args))
    if k == "op":
        return "%s(%s)" % (org[1].replace("WithOverflow", "").replace("Unchecked", ""), ",".join(abst(b, o, depth + 1) for o in org[2]))
    if k == "phi":
        return "phi{%s}" % ",".join(sorted({abst(b, o, depth + 1) for o in org[2]}))
    if k == "agg":
        return "agg"
    return k


def r8(ctx, facts):
    from . import c08
    n = 0
    for im in facts.impls_of(US):
        cl = c08.classify(facts, im)
        if cl is None:
            continue
        kind, tparam, fields, holding, wrapper = cl
        st = base_ty(im["self_ty"])
        hold = set(holding) | set(wrapper)
        if not hold:
            continue
        sg = [i for i in facts.impls_of(SG) if base_ty(i["self_ty"]) == st]
        meths = {m: facts.body(im["items"].get(m, "")) for m in ("get", "get_mut")}
        if sg:
            meths["shared_get_mut"] = facts.body(sg[0]["items"].get("shared_get_mut", ""))
        locs = {}
        for m, b in meths.items():
            if b is None:
                continue
            found = set()
            for bb, t in b.calls():
                c = t["callee"]
                if c.get("name") not in LOCATE or len(t["args"]) < 2:
                    continue
                ro = b.roots(b.arg_origin(bb, 0))
                if any(r[0] == "param" and r[1] == 1 and r[2] and r[2][0] in hold for r in ro):
                    found.add(abst(b, b.arg_origin(bb, 1)))
            # accessors forwarding to a sibling (get_mut -> shared_get_mut) inherit its locator
            if not found:
                for bb, t in b.calls():
                    for x in facts.targets(t["callee"]):
                        if x.self_ty == b.self_ty and x.name in meths and x.name != m:
                            found.add("-> " + x.name)
            locs[m] = found
        real = {m: v for m, v in locs.items() if v and not all(x.startswith("-> ") for x in v)}
        if len(real) < 2:
            continue
        n += 1
        vals = list(real.values())
        ok = all(v == vals[0] for v in vals)
        b0 = next(b for b in meths.values() if b is not None)
        ctx.ob("C04-R8", "%s: accessors agree on where the component of an index lives" % st, ok, b0.loc(),
               "" if ok else "get / get_mut / shared_get_mut locate the slot differently: %s - a lookup through one accessor can return another entity's component" % (
                   {m: sorted(v) for m, v in real.items()}))
    ctx.floor("C04-R8", "storages whose accessors are compared", n, 4)


def r9(ctx, facts):
    """membership is what the mask says: the &self observers of Storage that take no handle (count, is_empty, mask ..) compute their answer
    from the storage's mask and from no other state of the storage.  A cached count / length kept beside the mask is second state that every
    path - including the unwind path of clear() and of a purge - would have to keep in step; an observer reading it can disagree with
    contains / get / joins."""
    n = 0
    for b in facts.bodies:
        if b.kind == "Closure" or b.trait_item or base_ty(b.self_ty or "") != "storage::Storage" or b.vis != "Public" or b.argc != 1:
            continue
        if not b.ltype.get(1, "").startswith("&") or b.ltype.get(1, "").startswith("&mut"):
            continue
        if b.name not in ("count", "is_empty", "mask", "len"):
            continue
        n += 1
        rets = b.ret_origins()
        deps = set()
        for o in rets:
            deps |= set(b.deps(o)) | {o}
        def field_of(d):
            d = b.canon(d)          # deref(&self.data).mask == self.data.mask
            if d[0] == "param" and d[1] == 1 and len(d[2]) >= 2 and d[2][0] == "data":
                return d[2][1]
            return None
        via_mask = any(field_of(d) == "mask" for d in deps) or any(
            d[0] == "call" and any(tb.name == "mask" and base_ty(tb.self_ty or "") == "storage::Storage" for tb in facts.targets(b.term(d[1])["callee"])) for d in deps)
        other = sorted({field_of(d) for d in deps if field_of(d) not in (None, "mask")})
        ok = via_mask and not other
        ctx.ob("C04-R9", "%s is computed from the mask alone" % b.path, ok, b.loc(),
               "" if ok else "the answer %s%s: it can disagree with contains / get / joins (e.g. after clear() unwound)" % (
                   "does not depend on the storage's mask" if not via_mask else "also depends on other storage state",
                   (" (fields: %s)" % other) if other else ""))
    ctx.floor("C04-R9", "handle-less membership observers of Storage", n, 2)


def r11(ctx, facts):
    """Units in a two-way redirect table (the dense vector storage): one array is indexed by ENTITY INDEX and holds DENSE SLOTS (`data_id`: its
    elements are MaybeUninit<Index>), the others are indexed by dense slot and hold entity indices / components.  Both units are `u32`, so the
    compiler accepts a comparison between them; it is never meaningful (seeds C06-k1 and C16-k1, two agents independently: the tail fix-up
    `data_id[last] = did` put under `if did != last` - a slot compared with an entity index - instead of `id != last`).  Rule: in the
    methods of such a storage no `==` / `!=` / `<` .. compares a value that derives only from reads of the slot-holding array with a value that
    derives only from the method's index parameter or from reads of an id-holding array.  A value of mixed descent is not judged."""
    n = 0
    for im in facts.impls_of(US):
        adt = facts.adts.get(base_ty(im["self_ty"]))
        if not adt:
            continue
        fields = {f["name"]: f["ty"] for v in adt["variants"] for f in v["fields"]}
        slot_tables = {f for f, ty in fields.items() if "MaybeUninit<u32>" in ty.replace(" ", "")}
        id_tables = {f for f, ty in fields.items() if f not in slot_tables and ty.replace(" ", "").startswith("std::vec::Vec<u32")}
        if not slot_tables or not id_tables:
            continue
        n += 1
        for mname, mpath in sorted(im["items"].items()):
            b = facts.body(mpath)
            if not b:
                continue

            def unit(o, depth=0):
                """'slot' | 'id' | None, following the value structurally (never through the INDEX an element was read with)"""
                if depth > 6 or not o:
                    return None
                if o[0] == "param":
                    return "id" if (o[1] == 2 and b.ltype.get(2) == "u32" and not o[2]) else None
                if o[0] == "op" and o[1] in ("Cast", "IntToInt") and o[2]:
                    return unit(o[2][0], depth + 1)
                if o[0] == "phi":
                    us = {unit(x, depth + 1) for x in o[2]}
                    return us.pop() if len(us) == 1 else None
                if o[0] == "call":
                    t = b.term(o[1])
                    nm = t["callee"].get("name")
                    if not t["args"]:
                        return None
                    if nm in ("assume_init", "assume_init_read", "assume_init_ref", "unwrap", "expect", "unwrap_unchecked", "copied", "cloned", "clone", "deref",
                              "read", "into", "from", "try_from", "try_into"):
                        return unit(b.arg_origin(o[1], 0), depth + 1)
                    elem = nm in ("get", "get_unchecked", "get_unchecked_mut", "get_mut", "index", "index_mut", "last", "last_mut", "first", "pop",
                                  "swap_remove", "remove")
                    length = nm in ("len", "capacity")
                    if not (elem or length):
                        return None
                    ro = b.arg_origin(o[1], 0)
                    if ro[0] == "call" and b.term(ro[1])["callee"].get("name") in TRANSPARENT_NAMES and b.term(ro[1])["args"]:
                        ro = b.arg_origin(ro[1], 0)
                    us = set()
                    for r in b.roots(ro):
                        if r[0] == "param" and r[1] == 1 and r[2]:
                            if r[2][0] in slot_tables:
                                us.add("slot" if elem else "id")
                            elif r[2][0] in id_tables or "Vec<" in fields.get(r[2][0], ""):
                                us.add("id" if elem else "slot")
                    return us.pop() if len(us) == 1 else None
                return None
            bad = []
            for bid, blk in b.blocks.items():
                for st in blk["stmts"]:
                    rv = st["rv"]
                    if rv["k"] == "binop" and rv.get("op") in ("Eq", "Ne", "Lt", "Le", "Gt", "Ge") and len(rv["ops"]) == 2:
                        u = [unit(b.operand_origin(x)) for x in rv["ops"]]
                        if set(u) == {"slot", "id"}:
                            bad.append(st.get("line"))
            for bb, t in b.calls():
                if (t["callee"].get("path") or "") in ("std::cmp::PartialEq::eq", "std::cmp::PartialEq::ne") and len(t["args"]) == 2:
                    u = [unit(b.arg_origin(bb, 0)), unit(b.arg_origin(bb, 1))]
                    if set(u) == {"slot", "id"}:
                        bad.append(t.get("line"))
            ctx.ob("C04-R11", "%s::%s compares like with like" % (base_ty(im["self_ty"]), mname), not bad, b.loc(),
                   "" if not bad else "a dense slot (read from %s) is compared with an entity index at line(s) %s: the two agree only by coincidence, and the "
                   "branch taken then leaves the redirect table inconsistent with the data" % (sorted(slot_tables), bad), nontrivial=(mname in ("remove", "insert")))
    ctx.floor("C04-R11", "storages with a two-way redirect table", n, 1)
