"""C08 - every component value is handed back or destroyed exactly once (clause)."""
from ..core import base_ty, generic_args
from . import c04, c19

ARMED = True
TECHNIQUE = "structural rules over MIR for the hand-managed storages (destroy exactly the masked slots, forget/materialise pairing), teardown must-pass-through, confinement of ownership-escaping primitives"
EXPLANATION = (
    "Rust's ownership already gives exactly-once for safe code; the rules target the places that opt out. R1 (hand-managed storages clean what the "
    "mask names): an UnprotectedStorage impl whose fields hold T only inside MaybeUninit or not at all (discovered from field types) must, in clean(), "
    "run a destroying primitive (assume_init_drop, drop_in_place, or Self::remove whose result is dropped) inside a loop, for an index that is guarded "
    "by / iterated from the `has` parameter (a plain loop or an iterator pipeline whose `filter` tests `has`), and every path of that clean() reaches the walk - only `!needs_drop::<T>()` for the impl's component type T may skip it; every other impl must clear each T-holding container field or delegate to the inner storage's clean on "
    "every path. R2 (forget <-> materialise): a storage without T-holding field passes insert's value to mem::forget on every path and its remove "
    "materialises exactly one T outside any loop; the MaybeUninit storage's remove has exactly one moving read and no destroying primitive, its "
    "insert writes the value parameter with MaybeUninit::write. R3 (teardown): Drop for MaskedStorage reaches clean() through clear() on every path; every local struct that owns by value a storage kind "
    "whose plain drop destroys nothing (MaybeUninit slots, discovered from field types) or the Storage of an arbitrary component is itself a storage "
    "or has a Drop impl that reaches clean() on every path (type-level query over the ADT and impl tables); "
    "Storage::clear delegates to it; Drop for LazyUpdate pops its queue until None. R4 (confinement): calls of ownership-escaping primitives "
    "(ptr::read/write, mem::forget, ManuallyDrop, assume_init*, set_len, zeroed, transmute, drop_in_place) occur only in storage impls, the cell "
    "wrapper, Generation constructors and not_present_insert; a site elsewhere is reported as undetermined (needs an obligation). R5 (a slot is "
    "initialised iff its mask bit is set) = the C04 pairing rules R1 and R6 re-evaluated here. R6 = C19-R4 (a value whose mask update unwinds is "
    "removed again)."
)
NOT_DECIDED = ("that each unsafe site is individually correct (Miri's domain); full leak / double-drop freedom of the unsafe code; the dense "
               "storage's swap_remove bookkeeping; values queued in user closures R1 accepts the mask-driven walk (for id in has.iter() { slot(id) .. }) beside the slot-driven walk under has.contains.")
TRUSTED = ["rustc nightly MIR and drop elaboration", "core::mem / MaybeUninit / ptr primitive semantics by name", "sa/ analyses"]
LEVEL_TEXT = ("Clause only: for the storages that manage memory by hand the rules decide on all paths that clean() destroys exactly the slots the "
              "mask names, that insert/remove forget/materialise symmetrically, that teardown reaches clean, and that no other code uses "
              "ownership-escaping primitives. Whether each unsafe block is itself sound is NOT decided by this family.")

US = "storage::UnprotectedStorage"
ESCAPING = {"read", "write", "forget", "assume_init", "assume_init_read", "assume_init_drop", "assume_init_mut", "assume_init_ref", "set_len", "zeroed",
            "transmute", "drop_in_place", "read_unaligned", "write_unaligned", "copy", "copy_nonoverlapping", "uninit", "new_unchecked"}
ESC_PATHS = ("ptr::", "mem::forget", "mem::zeroed", "mem::transmute", "MaybeUninit", "ManuallyDrop", "Vec::<T, A>::set_len", "NonZero")


class Proxy:
    """re-labels the rule ids of another pack's rule functions"""

    def __init__(self, ctx, mapping):
        self._c = ctx
        self._m = mapping

    def __getattr__(self, k):
        return getattr(self._c, k)

    def ob(self, rule, *a, **k):
        return self._c.ob(self._m.get(rule, rule), *a, **k)

    def floor(self, rule, *a, **k):
        return self._c.floor(self._m.get(rule, rule), *a, **k)

    def anchor(self, rule, *a, **k):
        return self._c.anchor(self._m.get(rule, rule), *a, **k)


def configs(tier):
    return ["A"] if tier == "quick" else ["A", "F", "N", "FN"]


def run(ctx):
    for r, t in [("C08-R1", "clean() destroys exactly the slots the mask names"), ("C08-R2", "forget on insert <-> materialise on remove"),
                 ("C08-R3", "teardown reaches clean(); the lazy queue is drained on drop"), ("C08-R4", "ownership-escaping primitives are confined"),
                 ("C08-R5", "a slot is initialised iff its mask bit is set (C04 pairing rules)"), ("C08-R6", "a value whose mask update unwinds is removed again")]:
        ctx.rule(r, t)
    for cfg in configs(ctx.tier):
        facts = ctx.xfacts(cfg)
        r1r2(ctx, facts)
        r3(ctx, facts)
        r4(ctx, facts)
        px = Proxy(ctx, {"C04-R1": "C08-R5", "C04-R6": "C08-R5", "C19-R4": "C08-R6"})
        c04.MP[id(facts)] = c04.MaskPredicates(facts)
        c04.r1(px, facts)
        c04.r6(px, facts)
        c19.r4(px, facts)


def classify(facts, im):
    tparam = im["trait_args"][0] if im["trait_args"] else "T"
    adt = facts.adts.get(base_ty(im["self_ty"]))
    if not adt:
        return None
    fields = {f["name"]: f["ty"] for v in adt["variants"] for f in v["fields"]}
    targs = generic_args(im["self_ty"])
    holding = {f: ty for f, ty in fields.items() if c19.t_holding(ty, tparam) and not ty.startswith("std::marker::PhantomData")}
    wrapper = {f for f, ty in fields.items() if ty in targs and ty != tparam}
    if wrapper:
        kind = "wrapper"
    elif not holding:
        kind = "phantom"
    elif all("MaybeUninit<%s>" % tparam in ty or "MaybeUninit<" + tparam in ty for ty in holding.values()):
        kind = "maybeuninit"
    else:
        kind = "owning"
    return kind, tparam, fields, set(holding), wrapper


def t_args(x, bb):
    return x.term(bb).get("args")


def r1r2(ctx, facts):
    n = 0
    for im in facts.impls_of(US):
        st = base_ty(im["self_ty"])
        cl = classify(facts, im)
        if cl is None:
            ctx.ob("C08-R1", "%s clean" % st, "undetermined", "", "self type is not a local ADT")
            continue
        kind, tparam, fields, holding, wrapper = cl
        b = facts.body(im["items"].get("clean", ""))
        if not b:
            ctx.ob("C08-R1", "%s clean" % st, False, "", "no clean() body")
            continue
        n += 1
        ctx.note("[%s] %s is %s" % (facts.config, st, kind))
        if kind in ("phantom", "maybeuninit"):
            # destroying primitives in clean() or in helpers / guard types it uses (resolved crate-local calls, drop glue)
            scope = [b]
            seen = facts.reach([b], edge_filter=lambda bd, xbb, xt: (not xt["callee"].get("trait") or bool(xt["callee"].get("resolved"))))
            for pth in seen:
                for x in facts.by_path[pth]:
                    if x is not b and (x.path.startswith(b.path + "::") or x.path.startswith("<" + b.path + "::")):
                        scope.append(x)
            for x in list(facts.bodies):
                if x.trait_item == "std::ops::Drop::drop" and x.path.startswith("<" + b.path + "::") and x not in scope:
                    scope.append(x)
            destroy = []
            for x in scope:
                for bb, t in x.calls():
                    c = t["callee"]
                    if c.get("name") in ("assume_init_drop", "drop_in_place"):
                        destroy.append((x, bb, None))
                    elif c.get("path") == US + "::remove" and x is b and x.arg_origin(bb, 0)[:2] == ("param", 1):
                        destroy.append((x, bb, x.arg_origin(bb, 1)))
            ok = bool(destroy)
            why = "clean() of a hand-managed storage runs no destroying primitive: every component is leaked"
            for x, bb, io in destroy:
                inl = x.in_loop(bb)
                tied = False
                if x is b and io is not None and any(r[0] == "param" and r[1] == 2 for r in x.roots(io)):
                    tied = True
                if x is b and io is None and t_args(x, bb) and any(r[0] == "param" and r[1] == 2 for r in x.roots(x.arg_origin(bb, 0))):
                    # the slot destroyed in place was looked up with an index taken from the mask itself (`for id in has.iter() { if let
                    # Some(v) = self.0.get_mut(id as usize) { drop_in_place(v) } }`, benign C04-p1): only masked indices are ever visited
                    tied = True

                def is_has_test(gbb, gt, x=x):
                    c = gt["callee"]
                    if c.get("name") != "contains":
                        return False
                    if x is b:
                        return any(r[0] == "param" and r[1] == 2 for r in x.roots(x.arg_origin(gbb, 0)))
                    # in a helper: a BitSetLike::contains on a generic (type-parameter) mask carried by the helper's receiver
                    st_ = c.get("self_ty") or ""
                    return c.get("trait") == "hibitset::BitSetLike" and "::" not in st_.replace("&", "").strip()
                edges = x.bool_guard_edges(is_has_test)
                if edges and bb not in x.reachable(0, removed={e["true_edge"] for e in edges}):
                    tied = True
                if x.kind == "Closure" and not (inl and tied):
                    # the loop written as an iterator pipeline: the destroying primitive sits in the closure handed to an exhaustive consumer
                    # (for_each / fold ..) of an iterator over the slots, and the restriction to `has` in a `filter` closure of the same chain
                    site = facts.closure_site(x)
                    if site:
                        pb, pbb, pi, _rv = site
                        for cbb, ct in pb.calls():
                            cc = ct["callee"]
                            if cc.get("trait") == "std::iter::Iterator" and cc.get("name") in ("for_each", "fold", "try_for_each", "map", "count", "last") and \
                                    any(pb.operand_origin(a) == ("agg", pbb, pi, ()) for a in ct["args"][1:]):
                                inl = True
                                for d in pb.deps(pb.arg_origin(cbb, 0)):
                                    if d[0] == "call" and pb.term(d[1])["callee"].get("name") in ("filter", "take_while") and len(pb.term(d[1])["args"]) > 1:
                                        fo = pb.arg_origin(d[1], 1)
                                        if fo[0] != "agg":
                                            continue
                                        frv = pb.blocks[fo[1]]["stmts"][fo[2]]["rv"]
                                        fb = facts.body(frv.get("closure", "")) if "closure" in frv else None
                                        if fb is None:
                                            continue
                                        for fbb, ft in fb.calls():
                                            if ft["callee"].get("name") == "contains" and ft["args"]:
                                                rb, ro = facts.root_origin(fb, fb.arg_origin(fbb, 0))
                                                rets = fb.ret_origins() if hasattr(fb, "ret_origins") else []
                                                if rb is b and any(r[0] == "param" and r[1] == 2 for r in rb.roots(ro)) and \
                                                        any(o == ("call", fbb, ()) for o in rets):
                                                    tied = True
                if not (inl and tied):
                    ok = False
                    why = "destroying primitive at %s is %s" % (x.loc(bb), "not inside a loop (only one slot destroyed)" if not inl else
                                                                "not restricted to the indices named by the `has` mask (uninitialised slots destroyed / masked ones skipped)")
            ctx.ob("C08-R1", "%s::clean destroys exactly the masked slots" % st, ok, b.loc(), "" if ok else why)
            # ... and the walk over the slots is not skipped: every path of clean() reaches the loop (or the exhaustive iterator consumer) the
            # destroying primitive sits in, except under `!needs_drop::<T>()` for the COMPONENT type T (nothing to destroy then)
            heads = []
            for x, dbb, io in destroy:
                if x is b:
                    heads += [nbb for nbb, nt in b.calls() if nt["callee"].get("name") == "next" and nt["callee"].get("trait") == "std::iter::Iterator"
                              and dbb in b.reachable(nbb) and nbb in b.reachable(dbb)]
                elif x.kind == "Closure":
                    site = facts.closure_site(x)
                    if site and site[0].path == b.path:
                        heads += [cbb for cbb, ct in b.calls() if ct["callee"].get("trait") == "std::iter::Iterator" and
                                  any(b.operand_origin(a) == ("agg", site[1], site[2], ()) for a in ct["args"][1:])]
                else:
                    heads += [cbb for cbb, ct in b.calls() if any(tb.path == x.path for tb in facts.targets(ct["callee"]))]
            if ok and heads:
                comp = (im.get("trait_args") or [""])[0]
                removed = set()
                for e in b.bool_guard_edges(lambda gbb, gt: gt["callee"].get("name") == "needs_drop" and (gt["callee"].get("substs") or [""])[0] == comp):
                    removed.add(e["false_edge"])
                okr, wit = b.must_pass(0, heads, removed=removed)
                ctx.ob("C08-R1", "%s::clean always walks the slots" % st, okr, b.loc(),
                       "" if okr else "clean() can return without visiting the slots (path %s): components still in the storage at clear() / drop are never "
                       "destroyed (only `!needs_drop::<%s>()` - the component type - may skip the walk)" % (b.fmt_path(wit), comp))
        elif kind == "wrapper":
            dels = [bb for bb, t in b.calls() if t["callee"].get("path") == US + "::clean" and b.arg_origin(bb, 0)[:2] == ("param", 1)
                    and b.arg_origin(bb, 1) == ("param", 2, ())]
            ok, wit = b.must_pass(0, dels) if dels else (False, None)
            ctx.ob("C08-R1", "%s::clean delegates to the inner storage with the same mask" % st, ok, b.loc(),
                   "" if ok else "wrapper clean() does not hand `has` to the inner storage's clean on every path")
        else:
            cleared = set()
            for bb, t in b.calls():
                if t["callee"].get("name") in ("clear", "truncate", "drain") and t["args"] and b.must_pass(0, [bb])[0]:
                    for r in b.roots(b.arg_origin(bb, 0)):
                        if r[0] == "param" and r[1] == 1 and r[2]:
                            cleared.add(r[2][0])
            missing = holding - cleared
            ctx.ob("C08-R1", "%s::clean clears every component container" % st, not missing, b.loc(),
                   "" if not missing else "clean() leaves component container field(s) %s untouched" % sorted(missing))
        # R2
        ins = facts.body(im["items"].get("insert", ""))
        rem = facts.body(im["items"].get("remove", ""))
        if kind == "phantom" and ins and rem:
            f = [bb for bb, t in ins.calls() if t["callee"].get("name") == "forget" and ins.arg_origin(bb, 0) == ("param", 3, ())]
            okf, wit = ins.must_pass(0, f) if f else (False, None)
            ctx.ob("C08-R2", "%s::insert forgets the value on every path" % st, okf, ins.loc(),
                   "" if okf else "a storage that keeps no value must mem::forget what is inserted (dropping it here means remove() later materialises a second one: double drop)")
            reads = [bb for bb, t in rem.calls() if t["callee"].get("name") in ("read", "zeroed", "assume_init", "assume_init_read", "uninit")]
            okr = len(reads) == 1 and not rem.in_loop(reads[0])
            ctx.ob("C08-R2", "%s::remove materialises exactly one value" % st, okr, rem.loc(), "" if okr else "remove() materialises %d values / in a loop" % len(reads))
        if kind == "maybeuninit" and ins and rem:
            reads = []
            for x in [rem] + [y for p in facts.reach([rem]) for y in facts.by_path[p] if y.self_ty == rem.self_ty and y.path != rem.path and False]:
                reads += [(x, bb) for bb, t in x.calls() if t["callee"].get("name") in ("read", "assume_init_read", "assume_init")]
            destroy = [bb for bb, t in rem.calls() if t["callee"].get("name") in ("assume_init_drop", "drop_in_place")]
            okr = len(reads) == 1 and not destroy
            ctx.ob("C08-R2", "%s::remove moves the value out exactly once and destroys nothing" % st, okr, rem.loc(),
                   "" if okr else "remove(): %d moving reads, %d destroying primitives (expected 1 and 0): the returned value would be dropped twice or never produced" % (len(reads), len(destroy)))
            w = [bb for bb, t in ins.calls() if t["callee"].get("name") == "write" and "MaybeUninit" in t["callee"].get("path", "") and ins.arg_origin(bb, 1) == ("param", 3, ())]
            okw, wit = ins.must_pass(0, w) if w else (False, None)
            ctx.ob("C08-R2", "%s::insert writes the value with MaybeUninit::write on every path" % st, okw, ins.loc(),
                   "" if okw else "insert() does not move its value into the slot with MaybeUninit::write on every path")
    ctx.floor("C08-R1", "UnprotectedStorage impls examined", n, 6)


def r3(ctx, facts):
    px = Proxy(ctx, {"C19-R5": "C08-R3"})
    c19.r5(px, facts)
    sc = [b for b in facts.methods_named("storage::Storage", "clear") if not b.trait_item]
    ctx.anchor("C08-R3", "Storage::clear", sc)
    for b in sc:
        dels = [bb for bb, t in b.calls() if any(x.name == "clear" and base_ty(x.self_ty or "") == "storage::MaskedStorage" for x in facts.targets(t["callee"]))]
        ok, _ = b.must_pass(0, dels) if dels else (False, None)
        ctx.ob("C08-R3", "Storage::clear -> MaskedStorage::clear", ok, b.loc(), "" if ok else "Storage::clear does not go through the panic-safe MaskedStorage::clear")
    mc = [b for b in facts.methods_named("storage::MaskedStorage", "clear") if not b.trait_item]
    for b in mc:
        cl = [bb for bb, t in b.calls() if t["callee"].get("path") == US + "::clean"]
        ok, _ = b.must_pass(0, cl) if cl else (False, None)
        ctx.ob("C08-R3", "MaskedStorage::clear -> clean()", ok, b.loc(), "" if ok else "clear() does not reach clean() on every path")
    r3_owners(ctx, facts)
    from . import c09
    dr = [b for b in facts.bodies if b.trait_item == "std::ops::Drop::drop" and b.self_ty == "world::lazy::LazyUpdate"]
    ctx.anchor("C08-R3", "Drop for LazyUpdate", dr)
    for b in dr:
        pops = [bb for bb, t in b.calls() if c09.is_pop(t)]
        ves = b.variant_edges(lambda so: so[0] == "call" and so[1] in pops) if pops else []
        ok = bool(pops) and all(b.in_loop(p) for p in pops)
        ctx.ob("C08-R3", "Drop for LazyUpdate pops until the queue is empty", ok, b.loc(), "" if ok else "queued boxed values would be leaked on drop")


def _leaky_storages(facts):
    """storage kinds whose plain drop destroys no component: a local UnprotectedStorage type that keeps components in MaybeUninit
    slots (a MaybeUninit<..> field type mentioning a type parameter) - only clean(mask) knows which slots are alive"""
    import re
    out = {}
    for i in facts.impls_of(US):
        st = base_ty(i.get("self_ty") or "")
        adt = facts.adts.get(st)
        if not adt or not adt.get("variants"):
            continue
        for f in adt["variants"][0]["fields"]:
            for m in re.finditer(r"MaybeUninit<", f["ty"]):
                depth, j = 1, m.end()
                while j < len(f["ty"]) and depth:
                    depth += {"<": 1, ">": -1}.get(f["ty"][j], 0)
                    j += 1
                inner = f["ty"][m.end():j - 1]
                if re.search(r"(?<![:\w])[A-Z]\w*(?![:\w])", inner):
                    out[st] = f["name"]
    return out


def r3_owners(ctx, facts):
    """Whoever owns such a storage by value must clean it: every local struct with a field of a leaky storage kind (or of the
    `<T as Component>::Storage` of an arbitrary component) is either itself a storage (its clean() delegates, C08-R1, and ITS
    owner is held to this rule) or has a Drop impl that reaches UnprotectedStorage::clean on every path."""
    leaky = _leaky_storages(facts)
    ctx.floor("C08-R3", "storage kinds that need clean() to destroy their values", len(leaky), 1)
    storages = {base_ty(i.get("self_ty") or "") for i in facts.impls_of(US)}
    owners = 0
    for path, adt in sorted(facts.adts.items()):
        if not adt.get("variants") or adt.get("kind") not in ("Struct", "Enum"):
            continue
        for v in adt["variants"]:
            for f in v["fields"]:
                bt = base_ty(f["ty"])
                anyst = f["ty"].endswith("world::comp::Component>::Storage")
                if bt not in leaky and not anyst:
                    continue
                if f["ty"].lstrip().startswith(("&", "*")):
                    continue
                owners += 1
                if path in storages:
                    continue
                dp = adt.get("drop")
                db = [b for b in facts.bodies if b.path == dp] if dp else []
                ok, why = False, "`%s` owns a %s in field `%s` and has no Drop impl: when it is dropped (or moved out of and dropped) non-empty, the values in the " \
                                 "slots are neither handed back nor destroyed" % (path, bt if bt in leaky else "component storage", f["name"])
                def reaches_clean(b, depth=0):
                    """every path of b passes a call of clean(), directly or through crate functions all of whose targets do"""
                    cl = []
                    for bb, t in b.calls():
                        if t["callee"].get("path") == US + "::clean":
                            cl.append(bb)
                            continue
                        tg = [x for x in facts.targets(t["callee"])] if depth < 3 else []
                        if tg and all(x.trait_item == US + "::clean" or (x is not b and reaches_clean(x, depth + 1)) for x in tg):
                            cl.append(bb)
                    return bool(cl) and b.must_pass(0, cl)[0]
                for b in db:
                    ok = reaches_clean(b)
                    why = "" if ok else "Drop for `%s` does not reach clean() of its storage on every path" % path
                ctx.ob("C08-R3", "owner %s.%s cleans the storage it owns" % (path, f["name"]), ok, db[0].loc() if db else "", why)
    ctx.floor("C08-R3", "owners of storages that need clean()", owners, 1)


def allowed_site(b):
    if b.trait_item and (b.trait_item.startswith(US + "::") or b.trait_item.startswith("storage::SharedGetMutStorage::") or b.trait_item.startswith("storage::SliceAccess::")):
        return True
    st = base_ty(b.self_ty or "")
    if st in ("storage::sync_unsafe_cell::SyncUnsafeCell", "world::entity::Generation", "world::entity::ZeroableGeneration"):
        return True
    if b.name == "not_present_insert" or "not_present_insert" in b.path:
        return True
    if st.startswith("storage::storages::") or b.path.startswith("storage::storages::") or "<storage::storages::" in b.path:
        return True
    return False


def r4(ctx, facts):
    from ..summaries import forgotten_guards
    guards = forgotten_guards(facts)
    sites = []
    other = []
    for b in facts.bodies:
        for bb, t in b.calls():
            c = t["callee"]
            p = c.get("path", "")
            if c.get("crate") == "specs" or t.get("exp"):
                continue
            if c.get("name") in ESCAPING and any(x in p for x in ESC_PATHS):
                # the function whose source the call was written in (the body itself unless it was inlined from a helper)
                sb = facts.body(b.src(bb)) or b
                ok = allowed_site(sb) or allowed_site(b)
                if not ok and c.get("name") == "forget":
                    # defusing a rollback guard (C04-R1 / C19-R4 check what the guard does)
                    ao = b.arg_origin(bb, 0)
                    if ao[0] == "agg" and b.blocks[ao[1]]["stmts"][ao[2]]["rv"].get("adt") in guards:
                        ok = True
                (sites if ok else other).append((b, bb, p))
    ctx.floor("C08-R4", "ownership-escaping primitive call sites in the allowed bodies", len(sites), 12)
    ctx.note("[%s] %d ownership-escaping sites in storage impls / cell / generation / not_present_insert" % (facts.config, len(sites)))
    for b, bb, p in other:
        ctx.ob("C08-R4", "%s uses %s" % (b.path, p), "undetermined", b.loc(bb),
               "ownership-escaping primitive outside the bodies that carry an obligation in this pack: needs a rule of its own")
    ctx.ob("C08-R4", "no ownership-escaping primitive outside the obligated bodies", True if not other else "undetermined", "",
           "%d site(s) elsewhere" % len(other), nontrivial=False)
