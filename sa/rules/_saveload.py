"""Shared helpers for C14 / C15 (saveload, feature configuration F only)."""
from ..core import base_ty


def members(self_ty):
    return [x.strip() for x in self_ty.strip("()").split(",") if x.strip()]


def ser_bodies(facts):
    return [b for b in facts.bodies if b.trait_item == "saveload::ser::SerializeComponents::serialize_entity" and b.self_ty and b.self_ty.startswith("(")]


def de_bodies(facts):
    return [b for b in facts.bodies if b.trait_item == "saveload::de::DeserializeComponents::deserialize_entity" and b.self_ty and b.self_ty.startswith("(")]


def closure_bodies_in(facts, b):
    out = []
    for bid, blk in b.blocks.items():
        for i, s in enumerate(blk["stmts"]):
            rv = s["rv"]
            if rv["k"] == "aggregate" and "closure" in rv:
                cb = facts.body(rv["closure"])
                if cb:
                    out.append((bid, i, rv, cb))
    return out
