"""C20 - single-threaded behaviour is deterministic and replayable."""
import re

from .. import extract
from ..core import Facts

ARMED = True
TECHNIQUE = "zero-match effect query over all MIR bodies of every feature configuration (nondeterminism sources), matcher proven alive on a positive fixture crate"
EXPLANATION = (
    "A sufficient condition, modulo trusted dependencies: the library never OBSERVES a nondeterminism source. Every body of every configuration is "
    "scanned for: hash-order iteration (iter / keys / values / drain / into_iter / IntoIterator on HashMap / HashSet / AHashMap ...; retain is "
    "reported unless its closure is pure), address exposure (pointer->integer casts, addr / expose_provenance, fmt::Pointer), time (Instant / "
    "SystemTime::now), randomness (rand, getrandom, Uuid::new_v4, RandomState::new), thread / environment / process identity, and `static` items "
    "that are mutable or have interior mutability. Expected matches: zero outside the named exceptions. Because a rule that matches nothing passes "
    "vacuously, the same matchers are run on fixtures/positive (one deliberate instance of each construct) on every run and must all fire there."
)
NOT_DECIDED = ("determinism of the dependencies: hibitset iteration order, shred's MetaTable order, shrev, crossbeam (single-threaded), ahash point lookups; "
               "destructor ORDER inside HashMapStorage::clean (hash order, not among the property's observables) A hash container handed as an argument to generic foreign code (Vec::extend(set), from_iter(map), zip(set)) counts as hash-order iteration.")
TRUSTED = ["rustc nightly MIR", "dependency crates are deterministic in what they return for point operations", "sa/ analyses"]
LEVEL_TEXT = ("Absence of nondeterminism sources is a whole-program 'nothing reachable' query: it is decided for every body of all four feature "
              "configurations, with a positive fixture proving each matcher alive. It is sufficient for determinism only modulo the trusted "
              "dependencies, which is stated.")

HASH_TYPES = ("HashMap", "HashSet", "AHashMap", "AHashSet", "hash_map::", "hash_set::", "hashbrown")
HASH_ITER = {"iter", "iter_mut", "keys", "values", "values_mut", "into_keys", "into_values", "drain", "extract_if", "into_iter", "par_iter", "retain"}
EXC = {
    "saveload::uuid::": "feature uuid_entity: random ids by design; the property's anchors name the simple (counter) allocator",
}


def configs(tier):
    return ["A", "F"] if tier == "quick" else ["A", "F", "N", "FN"]


HANDOVER_OK = ("std::mem::", "core::mem::", "std::ptr::", "core::ptr::", "std::clone::Clone::", "std::default::Default::", "std::fmt::", "std::option::Option",
               "std::result::Result", "std::ops::Deref", "std::ops::DerefMut", "std::borrow::", "std::convert::AsRef", "std::convert::AsMut", "std::boxed::Box",
               "std::sync::", "std::cell::", "std::rc::", "std::marker::", "std::ops::Drop", "std::cmp::PartialEq", "serde::")


def hash_container_handed_over(b, t):
    c = t["callee"]
    p = c.get("path", "") or ""
    st = c.get("self_ty") or ""
    if c.get("crate") == "specs" or not p or any(h in st for h in HASH_TYPES) or p.startswith(HANDOVER_OK) or any(h in p for h in HASH_TYPES):
        return False
    for a in t.get("args", []):
        if not isinstance(a, dict):
            continue
        pl = a.get("move") or a.get("copy")
        if not pl or pl.get("proj"):
            continue
        ty = (b.ltype.get(pl["local"]) or "").lstrip("&").replace("mut ", "", 1).strip()
        if ty.startswith(("std::collections::HashMap<", "std::collections::HashSet<", "std::collections::hash_map::", "std::collections::hash_set::",
                          "ahash::AHashMap<", "ahash::AHashSet<", "hashbrown::")):
            return True
    return False


def scan(facts, is_fixture=False):
    """list of (category, body, where, detail)"""
    out = []
    for b in facts.bodies:
        for bb, t in b.calls():
            c = t["callee"]
            p = c.get("path", "") or ""
            st = c.get("self_ty") or ""
            nm = c.get("name")
            subs = " ".join(c.get("substs", []))
            if nm in HASH_ITER and (any(h in st for h in HASH_TYPES) or (p.startswith("std::iter::IntoIterator") and any(h in subs for h in HASH_TYPES))):
                if nm == "retain" and pure_closure_arg(facts, b, bb, t):
                    continue
                out.append(("hash-order iteration", b, b.loc(bb), "%s on %s" % (p, st)))
            elif hash_container_handed_over(b, t):
                # a hash container given to generic foreign code as an argument (Vec::extend(set), from_iter(map), zip(set) ..): the callee can
                # only consume it by iterating it - in hash order (seed C20-g2: freed indices pass through a HashSet on their way to the free list)
                out.append(("hash-order iteration", b, b.loc(bb), "%s is handed a hash container" % p))
            elif nm in ("addr", "expose_provenance", "expose_addr") and ("ptr::" in p or "*const" in st or "*mut" in st):
                out.append(("address exposure", b, b.loc(bb), p))
            elif p.endswith("fmt::Pointer::fmt") or "new_pointer" in p:
                out.append(("address exposure", b, b.loc(bb), p))
            elif nm == "now" and ("time::Instant" in p or "time::SystemTime" in p):
                out.append(("time", b, b.loc(bb), p))
            elif c.get("crate") in ("rand", "getrandom", "rand_core", "fastrand") or "RandomState::new" in p or nm in ("new_v4", "thread_rng") or \
                    (nm in ("default", "new") and "RandomState" in (p + st)):
                out.append(("randomness", b, b.loc(bb), p))
            elif p in ("std::thread::current", "std::process::id") or p.startswith("std::env::") or nm == "available_parallelism":
                out.append(("thread/env/process identity", b, b.loc(bb), p))
        for bid, blk in b.blocks.items():
            for s in blk["stmts"]:
                rv = s["rv"]
                if rv["k"] == "cast" and rv.get("cast", "").startswith(("PointerExposeProvenance", "PointerExposeAddress")):
                    out.append(("address exposure", b, b.loc(line=s.get("line")), "pointer -> integer cast"))
    for sitem in facts.statics:
        if sitem.get("interior_mut") or sitem.get("mutable"):
            out.append(("mutable static", None, "", "%s: %s" % (sitem["static"], sitem["ty"])))
    return out


def pure_closure_arg(facts, b, bb, t):
    """retain(|k, v| ..) with a closure that calls nothing with &mut arguments and captures nothing mutably: order cannot be observed"""
    for a in t["args"][1:]:
        o = b.operand_origin(a)
        if o[0] != "agg":
            return False
        rv = b.blocks[o[1]]["stmts"][o[2]]["rv"]
        cb = facts.body(rv.get("closure", ""))
        if cb is None:
            return False
        for x in rv["ops"]:
            if isinstance(x, dict) and str(x.get("ty", "")).startswith("&mut"):
                return False
        for cbb, ct in cb.calls():
            if any(isinstance(x, dict) and str(x.get("ty", "")).startswith("&mut") for x in ct["args"]):
                return False
        if cb.stores():
            return False
    return True


def run(ctx):
    ctx.rule("C20-R1", "no nondeterminism source is observed anywhere in the library")
    ctx.rule("C20-R0", "matcher control: every category fires on fixtures/positive")
    for pfx, why in EXC.items():
        ctx.exception(pfx + "*", why)
    # matcher control
    fx = Facts(extract.fixture_facts("positive"))
    hits = scan(fx, True)
    cats = {h[0] for h in hits}
    need = {"hash-order iteration": 5, "address exposure": 3, "time": 2, "randomness": 1, "thread/env/process identity": 3, "mutable static": 2}
    for cat, n in need.items():
        got = sum(1 for h in hits if h[0] == cat)
        ctx.ob("C20-R0", "matcher '%s' fires on the fixture" % cat, got >= n, "fixtures/positive/src/lib.rs", "" if got >= n else "only %d of %d expected matches: the matcher is dead" % (got, n),
               config="fixture")
    for cfg in configs(ctx.tier):
        facts = ctx.facts(cfg)
        found = scan(facts)
        seen_keys = set()
        for cat, b, where, detail in found:
            bp = b.path if b else detail
            exc = next((why for pfx, why in EXC.items() if pfx in bp), None)
            key = "%s in %s: %s" % (cat, bp, detail)
            if exc:
                ctx.ob("C20-R1", key, True, where, "named exception: " + exc, nontrivial=False)
            else:
                ctx.ob("C20-R1", key, False, where, "%s: behaviour can depend on hash seeds, addresses, time, randomness or the environment" % cat)
        ctx.ob("C20-R1", "all %d bodies of config %s scanned" % (len(facts.bodies), cfg), True, "", "%d matches" % len(found), nontrivial=False)
