"""C02 - aliveness follows the create / delete / maintain timeline exactly."""
from ..alloc import ALLOC, AllocModel
from . import _alloc_rules
from ..core import base_ty, rv_const_bool, strip_ref
from ..summaries import ENTITY, AliveClass, entity_of_index

ARMED = True
TECHNIQUE = "guard-dominance (kill paths under is_alive of the same handle), value-origin (error position, purge handles), pairing rules and sibling agreement over MIR"
EXPLANATION = (
    "R1 (a dead handle changes nothing): in every allocator body that takes an entity handle or a slice of handles, every call that is "
    "handed the index of a handle x together with allocator state (&mut self, a field, an atomic bit set) is unreachable once the true-edge of "
    "is_alive(x) is deleted, and the Err result is unreachable once the false-edge is deleted; EntitiesRes::delete forwards to that path only. "
    "R2 (reported position): the usize in kill's Err payload originates in the counter component of the enumerate() item of the current iteration "
    "of the loop over the batch. R3 (a death clears the pending-kill flag): every death site is accompanied by killed.remove(same index) on every "
    "path through it, or by the bulk idiom (death sites iterate `killed`, killed.clear() post-dominates) - upstream regression #533 as a rule. "
    "R4 (merge order and result): the loop applying pending raises is finished (raised.clear() passed) before the iterator over `killed` is "
    "created; every item of the pending-creation loop becomes alive (or is reported dead), every item of the pending-deletion loop kills its "
    "slot, and every slot death in merge is reported in the returned vector, on every path of its iteration. R5 (sibling agreement on 'current "
    "generation of index i'): is_alive and entity() use the same set of generation-computing callees; the three join get() impls of &EntitiesRes "
    "and the tail of allocate_atomic do too, and the join impls agree on Mask. R6 (builders): Drop for each builder calls EntitiesRes::delete(self.entity) "
    "on every path of the built == false edge and never on the other; build() stores true into `built` before returning self.entity. R7 "
    "(delete_all): the slice handed to delete_entities originates in collect() of the entities join."
)
NOT_DECIDED = ("that is_alive's three-way match computes the right generation for every state of (generations, raised) - its value semantics; the "
               "timeline itself as a theorem over histories; hibitset's iteration")
TRUSTED = ["rustc nightly MIR", "hibitset BitSet/AtomicBitSet method semantics by name", "sa/ analyses"]
LEVEL_TEXT = ("The structural half of the timeline is decided on all paths: deletion paths touch nothing for a dead handle and report the right "
              "position, every death clears the pending deferred kill, merge applies raises before kills and returns the killed handles, the "
              "computations of an index's current generation agree with each other, unfinished builders delete their entity. The arithmetic of "
              "generations is not decided.")

READERS = {"world::entity::Allocator::is_alive", "world::entity::Allocator::del_err", "world::entity::Entity::id", "world::entity::Entity::gen"}


def configs(tier):
    return ["A", "N"] if tier == "quick" else ["A", "F", "N", "FN"]   # N: three independent seeds (C01-g2, C10-g2, C17-g2) hid a defect in a cfg(not(parallel)) twin


def run(ctx):
    for r, t in [("C02-R1", "kill paths: nothing changes for a dead handle"), ("C02-R2", "batch failure reports the loop position"),
                 ("C02-R3", "a death clears the pending deferred kill"), ("C02-R4", "merge: raises before kills, returns the killed handles"),
                 ("C02-R5", "sibling agreement on the current generation of an index"), ("C02-R6", "unfinished builders delete their entity"),
                 ("C02-R7", "delete_all kills what the entities join yields")]:
        ctx.rule(r, t)
    for cfg in configs(ctx.tier):
        facts = ctx.xfacts(cfg)
        model = AllocModel(facts)
        alive = AliveClass(facts)
        r1(ctx, facts, model, alive)
        r2(ctx, facts, model)
        r3(ctx, facts, model)
        r4(ctx, facts, model)
        n = _alloc_rules.merge_accounting(ctx, facts, model, {'revive': 'C02-R4', 'kill': 'C02-R4', 'report': 'C02-R4'})
        ctx.floor('C02-R4', 'pending-set loops in merge', n, 2)
        r5(ctx, facts, model)
        r6(ctx, facts)
        r7(ctx, facts)


def handle_bodies(model):
    out = []
    for b in model.bodies:
        tys = [strip_ref(b.ltype[i]) for i in range(2, b.argc + 1)]
        if any(t in (ENTITY, "[world::entity::Entity]") for t in tys) and b.ltype[0].startswith("std::result::Result"):
            out.append(b)
    return out


def err_aggregates(b):
    """(bb, stmt idx, rvalue) of every Result::Err aggregate whose value can reach the return place"""
    ret_deps = b.deps(b.origin({"local": 0, "proj": []}))
    out = []
    for bid, blk in b.blocks.items():
        for i, st in enumerate(blk["stmts"]):
            rv = st["rv"]
            if rv["k"] == "aggregate" and rv.get("variant") == "Err" and "Result" in rv.get("adt", ""):
                if (st["dst"]["local"] == 0 and not st["dst"]["proj"]) or ("agg", bid, i, ()) in ret_deps:
                    out.append((bid, i, rv))
    return out


def r1(ctx, facts, model, alive):
    hb = handle_bodies(model)
    ctx.floor("C02-R1", "allocator bodies taking handles and returning Result (kill paths)", len(hb), 2)
    nsites = 0
    for b in hb:
        xs = set()
        for bb, t in b.calls():
            c = t["callee"]
            if c.get("path") in READERS or c.get("resolved") in READERS or b.src(bb) in READERS:
                continue
            idx_args = []
            for ai, a in enumerate(t["args"]):
                x = entity_of_index(b, b.operand_origin(a))
                if x is not None:
                    idx_args.append((ai, x))
            if not idx_args:
                continue
            state = any(model.field_of(b, b.operand_origin(a)) is not None for a in t["args"] if isinstance(a, dict) and "const" not in a)
            if not state:
                continue
            for ai, x in idx_args:
                nsites += 1
                xs.add(x)
                ok, edges = alive.guarded(b, bb, x)
                ctx.ob("C02-R1", "%s -> %s @arg%d" % (b.path, c.get("path"), ai), ok, b.loc(bb),
                       "" if ok else "allocator state is changed for the index of a handle without a dominating is_alive test of that handle "
                       "(deleting through a dead handle must change nothing); path %s" % b.fmt_path(b.path_to(bb, {e["true_edge"] for e in edges})))
        # Err is returned only on the false edge
        for ebb, ei, erv in err_aggregates(b):
            for x in xs:
                edges = alive.guard_edges(b, x)
                removed = {e["false_edge"] for e in edges}
                ok = bool(edges) and ebb not in b.reachable(0, removed=removed)
                why_ = "" if ok else "the wrong-generation error can be produced for a live handle"
                if not ok:
                    # which handle is the error about?  If it is a value this body never tests for aliveness itself (e.g. `delete[done]`
                    # re-fetched after a `position()` that did the testing), error and test are related only through the VALUE of an index:
                    # not decided, rather than called a violation.  An error about the tested handle outside its false edge stays a violation.
                    eo = b.operand_origin(erv["ops"][0], at=(ebb, ei)) if erv.get("ops") else None
                    about = set()
                    for d in (b.deps(eo) if eo else []):
                        if d[0] == "call":
                            for k_, a_ in enumerate(b.term(d[1])["args"]):
                                if isinstance(a_, dict) and strip_ref(a_.get("ty", "")) == "world::entity::Entity":
                                    about.add(b.arg_origin(d[1], k_))
                    if about and x not in about and not any(alive.guard_edges(b, y) for y in about):
                        ok = "undetermined"
                        why_ = "the error is about %r, which this body re-fetches by position and never tests itself; whether that is the rejected element is value-dependent" % (sorted(about)[:1],)
                ctx.ob("C02-R1", "%s Err only for a dead handle" % b.path, ok, b.loc(line=b.blocks[ebb]["stmts"][ei].get("line")), why_)
    ctx.floor("C02-R1", "guarded mutation sites on the kill paths", nsites, 4)
    # EntitiesRes::delete forwards to a handle body only
    dl = facts.body("world::entity::EntitiesRes::delete")
    ctx.anchor("C02-R1", "EntitiesRes::delete", dl)
    if dl:
        tg = [tb.path for _, t in dl.calls() for tb in facts.targets(t["callee"])]
        ok = bool(tg) and all(p in [b.path for b in hb] for p in tg)
        ctx.ob("C02-R1", "EntitiesRes::delete forwards to the checked deferred kill", ok, dl.loc(), "" if ok else "EntitiesRes::delete calls %s" % tg)


def batch_loops(b):
    """loops over the batch parameter: (block of the next() call, target of its Some edge)"""
    out = []
    for nbb, nt in b.calls():
        if nt["callee"].get("path") != "std::iter::Iterator::next" or nt.get("ghost"):
            continue
        if not any(r[0] == "param" and r[1] == 2 for r in b.roots(b.arg_origin(nbb, 0))):
            continue
        for ve in b.variant_edges(lambda so: so == ("call", nbb, ())):
            if ve["edges"].get("Some"):
                out.append((nbb, ve["edges"]["Some"][1]))
    return out


def r2(ctx, facts, model):
    for b in handle_bodies(model):
        if "usize" not in b.ltype[0]:
            continue
        n = 0
        loops = batch_loops(b)
        for ebb, ei, erv in err_aggregates(b):
            at = (ebb, ei)
            o = b.operand_origin(erv["ops"][0], at=at)
            # payload tuple (err, usize): find the usize component
            pos = posop = pat = None
            if o[0] == "agg":
                pat = (o[1], o[2])
                rv = b.blocks[o[1]]["stmts"][o[2]]["rv"]
                for op in rv["ops"]:
                    if isinstance(op, dict) and op.get("ty") == "usize":
                        posop = op
                        pos = b.operand_origin(op, at=pat)
            ok = False
            why = "no usize component in the Err payload (%r)" % (o,)
            if pos is not None:
                why = None
                # (a) the enumerate() counter of the current item of a loop over the batch
                if pos[0] == "call" and pos[2][:1] == ("as Some",) and pos[2][-1:] == ("0",):
                    c = b.term(pos[1])["callee"]
                    if c.get("path") == "std::iter::Iterator::next" and "Enumerate" in (c.get("self_ty") or ""):
                        ok = any(r[0] == "param" and r[1] == 2 for r in b.roots(b.arg_origin(pos[1], 0)))
                        why = "" if ok else "the enumerated iterator is not over the batch parameter"
                # (c) an index-driven loop (`while let Some(&e) = batch.get(k)` / `batch[k]`): the position is the very index the rejected
                #     element was fetched with - the same local, not written between the fetch and the error
                if why is None:
                    root = b.copy_root(posop, pat)
                    if root is not None:
                        for gbb, gt in b.calls():
                            gc = gt["callee"]
                            if not ((gc.get("name") in ("get", "get_unchecked") and "slice" in gc.get("path", "")) or
                                    (gc.get("name") == "index" and (gc.get("trait") or "").endswith("ops::Index"))) or len(gt["args"]) < 2:
                                continue
                            if not any(r[0] == "param" and r[1] == 2 for r in b.roots(b.arg_origin(gbb, 0))):
                                continue
                            if gt.get("target") is None or pat[0] not in b.reachable(gt["target"]):
                                continue
                            groot = b.copy_root(gt["args"][1], (gbb, len(b.blocks[gbb]["stmts"])))
                            if groot is None or groot[0] != root[0]:
                                continue
                            # blocks on a path from this fetch to the error that does not fetch again (a later iteration has its own fetch)
                            fwd = b.reachable(gt["target"], stop=[pat[0], gbb])
                            between = {x for x in fwd if x != gbb and (x == pat[0] or pat[0] in b.reachable(x, stop=[gbb]))} | {pat[0]}
                            written = any(st_["dst"]["local"] == root[0] and not st_["dst"]["proj"] and (bid_ != pat[0] or i_ < pat[1])
                                          for bid_ in between for i_, st_ in enumerate(b.blocks[bid_]["stmts"]))
                            # the fetched element is the one that is rejected: it (or its payload) is what the aliveness test / error is about
                            if not written:
                                ok, why = True, ""
                                break
                # (b) a counter in step with a loop over the batch (also what Iterator::position is rewritten to)
                if why is None:
                    root = b.copy_root(posop, pat)
                    tried = []
                    if root is not None:
                        for nbb, some_t in loops:
                            good, w = b.counts_iterations(root[0], nbb, some_t, [ebb, pat[0]])
                            if good:
                                ok, why = True, ""
                                break
                            tried.append(w)
                    if why is None:
                        deps = b.deps(pos)
                        # a value computed entirely outside the loop over the batch (parameters, constants, calls before the loop: `delete.len() - 1`)
                        # is the same whichever element was rejected, so it cannot be that element's position
                        in_loop = set()
                        for nbb, some_t in loops:
                            fwd = b.reachable(some_t)
                            in_loop |= {x for x in fwd if nbb in b.reachable(x)} | {nbb}
                        invariant = bool(loops) and pos[0] != "phi" and all(
                            d[0] in ("const", "param", "op") or (d[0] == "call" and d[1] not in in_loop) for d in list(deps) + [pos]) and \
                            any(d[0] in ("param", "const") for d in list(deps) + [pos])
                        understood = pos[0] in ("const", "param") or any(
                            d[0] == "call" and b.term(d[1])["callee"].get("path") == "std::iter::Iterator::next" for d in deps) or tried or invariant
                        if understood:
                            why = "error position %r is neither the enumerate() counter of the rejected element nor a count of the completed iterations (%s)" % (
                                pos, "; ".join(sorted(set(tried))) or "no loop counter")
                        else:
                            ok = "undetermined"
                            why = "cannot relate the error position %r to the loop over the batch" % (pos,)
            n += 1
            ctx.ob("C02-R2", "%s Err position = loop index" % b.path, ok, b.loc(line=b.blocks[ebb]["stmts"][ei].get("line")), why)
        ctx.floor("C02-R2", "Err sites carrying a position in %s" % b.name, n, 1)


def r3(ctx, facts, model):
    n = 0
    for b in model.bodies:
        sites = [(bb, b.arg_origin(bb, 1), model.index_key(b, b.arg_origin(bb, 1)), "alive bit cleared") for bb, t in model.death_sites(b)]
        # the generation slot dying is a death too, whether or not the alive bit was set (a not-yet-merged creation)
        for dbb, k in model.gen_slot_calls(b, model.die):
            if k is not None:
                io_ = b.arg_origin(b.call_of(b.arg_origin(dbb, 0))[0], 1) if b.call_of(b.arg_origin(dbb, 0)) else ("unknown",)
                sites.append((dbb, io_, k, "generation slot dies"))
        ords = b.ordinals([x[0] for x in sites])
        for bb, io, key, what in sites:
            i = ords[bb]
            n += 1
            rem = [rbb for rbb, rt in model.calls_on_field(b, ("killed",), {"remove"}, "AtomicBitSet") if model.index_key(b, b.arg_origin(rbb, 1)) == key]
            okA = False
            if rem:
                # every entry->return path through the death passes a matching remove
                before = bb in b.reachable(0, stop=rem)
                after = any(r in b.reachable(bb, stop=rem) for r in b.returns())
                okA = not (before and after)
            clears = [cbb for cbb, ct in model.calls_on_field(b, ("killed",), {"clear"}, "AtomicBitSet")]
            okB = False
            if clears:
                from_killed = any(r[0] == "param" and r[1] == 1 and r[2][:1] == ("killed",) for r in b.roots(io))
                okB = from_killed and b.must_pass(bb, clears)[0]
            ok = okA or okB
            ctx.ob("C02-R3", "%s death #%d (%s) clears the pending kill" % (b.path, i, what), ok, b.loc(bb),
                   "" if ok else "an index dies while its pending deferred-kill bit may stay set: the next maintain would kill whatever entity then "
                   "occupies the index (#533) (per-index killed.remove on same index: %s, bulk killed.clear after a loop over killed: %s)" % (bool(rem), bool(clears)))
    ctx.floor("C02-R3", "death sites", n, 2)


def r4(ctx, facts, model):
    mg = [b for b in model.bodies if model.calls_on_field(b, ("killed",), {"clear"}, "AtomicBitSet") and b.ltype[0].startswith("std::vec::Vec<world::entity::Entity")]
    ctx.anchor("C02-R4", "the allocator's merge body (bulk-clears `killed`, returns Vec<Entity>)", mg)
    for b in mg:
        rclears = [cbb for cbb, _ in model.calls_on_field(b, ("raised",), {"clear"}, "AtomicBitSet")]
        kiters = [bb for bb, t in b.calls() if t["callee"].get("name") == "iter" and any(
            r[0] == "param" and r[1] == 1 and r[2][:1] == ("killed",) for r in b.roots(b.arg_origin(bb, 0)))]
        ok = bool(rclears) and bool(kiters) and all(k not in b.reachable(0, stop=rclears) for k in kiters)
        ctx.ob("C02-R4", "%s applies all pending raises before iterating `killed`" % b.path, ok, b.loc(),
               "" if ok else "the kill loop can start before the raise loop finished (raised.clear() does not dominate the iterator over killed)")
        # result vector: pushes of Entity(i, ..) with i from the killed iteration; returned
        ro = None
        for d in b.defs().get(0, []):
            if d[0] == "stmt" and d[4]["k"] == "use":
                ro = b.operand_origin(d[4]["ops"][0])
        pushes = []
        for bb, t in b.calls():
            if t["callee"].get("name") == "push" and "vec::Vec" in t["callee"].get("path", "") and b.arg_origin(bb, 0) == ro:
                pushes.append(bb)
        okp = bool(pushes)
        why = "merge does not return a vector it pushed handles to"
        deaths = model.death_sites(b)
        for p in pushes:
            eo = b.arg_origin(p, 1)
            if eo[0] != "agg":
                okp = False
                why = "pushed value is not an Entity aggregate"
                continue
            rv = b.blocks[eo[1]]["stmts"][eo[2]]["rv"]
            io = b.operand_origin(rv["ops"][0])
            if not any(b.arg_origin(dbb, 1) == io for dbb, _ in deaths):
                okp = False
                why = "the handle pushed to the result is not for the index being killed"
        for dbb, _ in deaths:
            # each death has a push of the same index on every path through the iteration
            same = [p for p in pushes if b.operand_origin(b.blocks[b.arg_origin(p, 1)[1]]["stmts"][b.arg_origin(p, 1)[2]]["rv"]["ops"][0]) == b.arg_origin(dbb, 1)] if okp else []
            if not same or not (b.must_pass(dbb, same, goals=[x for x, t in b.calls() if t["callee"].get("path") == "std::iter::Iterator::next"] + b.returns())[0]
                                or all(dbb in b.reachable(p) for p in same) is False):
                pass
            if not same:
                okp = False
                why = "a killed index is not reported in merge's result"
        ctx.ob("C02-R4", "%s returns the handles it killed" % b.path, okp, b.loc(), "" if okp else why)


ALPHABET = ("world::entity::Generation::", "world::entity::ZeroableGeneration::")
# pure accessors of the generation table: looked through at ANY depth (never counted against the depth bound, never named) - a sibling may
# read `generations[id]` itself or through the accessor (benign C06-p1: the three join get()s share a helper that indexes the table directly)
ACCESSORS = ("world::entity::Allocator::generation",)


def callee_set(facts, b, depth=3, _seen=None):
    """set of callee paths of a body including its closures and (bounded) crate-local callees"""
    _seen = _seen or set()
    out = set()
    if b.path in _seen:
        return out
    _seen.add(b.path)
    for bb, t in b.real_calls():
        c = t["callee"]
        p = c.get("path")
        if not p:
            continue
        # a crate-local callee that resolves to one body is looked through (one sibling delegating to the other, or both to a shared
        # helper that is `pub(crate)` and therefore not inlined by the expansion layer, must compare equal)
        if p.startswith(ALPHABET):
            # the generation primitives are what the siblings are compared BY: always named, never looked through (looking through them
            # up to a depth bound made the comparison depend on how deep below the sibling the call sits)
            out.add(p)
            continue
        if p in ACCESSORS:
            for tb in facts.targets(c):
                out |= callee_set(facts, tb, depth, _seen)
            continue
        tgs = facts.targets(c) if c.get("crate") == "specs" and not (c.get("trait") and not c.get("resolved")) else []
        if len(tgs) == 1 and tgs[0].kind != "Closure" and depth > 0 and tgs[0].path not in _seen:
            out |= callee_set(facts, tgs[0], depth - 1, _seen)
            continue
        out.add(p)
        for a in t["args"]:
            if isinstance(a, dict) and "fn" in a:
                out.add(a["fn"])
    for bid, blk in b.blocks.items():
        for s in blk["stmts"]:
            rv = s["rv"]
            if rv["k"] == "aggregate" and "closure" in rv:
                for cb in facts.by_path.get(rv["closure"], []):
                    out |= callee_set(facts, cb, depth, _seen)
    return out


GEN_NOISE = {"world::entity::Entity::id", "world::entity::Entity::gen", "std::cmp::PartialEq::eq", "std::cmp::PartialEq::ne",
             "world::entity::Generation::id", "world::entity::ZeroableGeneration::id"}      # pure accessors
STYLE_PREFIXES = ("std::option::Option::<T>::", "std::option::Option::<&T>::", "std::option::Option::<&mut T>::", "std::result::Result::<T, E>::", "std::ops::Try::", "std::ops::FromResidual::", "std::ops::Deref::",
                  "std::convert::", "std::clone::Clone::", "std::iter::Iterator::", "core::slice::<impl [T]>::get", "std::ops::Index::")


def essence(cs):
    """a callee set without what is merely the style an Option / Result is taken apart in (combinator vs match vs `?`)"""
    return {p for p in cs if p not in GEN_NOISE and not p.startswith(STYLE_PREFIXES)}


def r5(ctx, facts, model):
    ia = facts.body("world::entity::Allocator::is_alive")
    en = facts.body("world::entity::Allocator::entity")
    ctx.anchor("C02-R5", "Allocator::is_alive", ia)
    ctx.anchor("C02-R5", "Allocator::entity", en)
    if ia and en:
        a = essence(callee_set(facts, ia))
        e = essence(callee_set(facts, en))
        ok = a == e
        ctx.ob("C02-R5", "is_alive and entity() compute the current generation alike", ok, ia.loc(),
               "" if ok else "callee sets differ: only in is_alive %s, only in entity %s" % (sorted(a - e), sorted(e - a)))
    # the aliveness predicates never consult the pending-deletion set: a deletion requested through the shared resource takes effect at the next
    # maintain, until then the entity IS alive (seed C13-k1: `EntitiesRes::is_alive` = `alloc.is_alive(e) && !alloc.killed.contains(e.id())` -
    # keyed lookups and get_other() refuse an entity that joins still visit and whose components are still there)
    preds = [b for b in facts.bodies if b.name == "is_alive" and (b.self_ty or "").startswith("world::entity::") and b.ltype.get(0) == "bool"]
    ctx.floor("C02-R5", "aliveness predicates of the entities resource", len(preds), 2)
    for b in preds:
        reads = set()
        for bb, t in b.calls():
            for i in range(len(t["args"])):
                for r in b.roots(b.arg_origin(bb, i)):
                    if r[0] == "param" and r[1] == 1:
                        reads |= set(r[2])
        for bid, blk in b.blocks.items():
            for st in blk["stmts"]:
                if st["rv"]["k"] == "ref":
                    pn = b.origin(st["rv"]["place"])
                    if pn[0] == "param" and pn[1] == 1:
                        reads |= set(pn[2])
        ok = "killed" not in reads
        ctx.ob("C02-R5", "%s does not consult the pending-deletion set" % b.path, ok, b.loc(),
               "" if ok else "the aliveness predicate reads the allocator's `killed` set: an entity whose deletion was only requested (effective at the next "
               "maintain) is reported dead at once, while joins still visit it and its components are still stored")
    gets = [b for b in facts.bodies if b.name == "get" and b.trait_item and b.trait_item.split("::")[-2] in ("Join", "LendJoin", "ParJoin")
            and base_ty(b.self_ty or "") == "world::entity::EntitiesRes"]
    ctx.floor("C02-R5", "join get() impls for &EntitiesRes", len(gets), 2)
    sets = {b.path: essence(callee_set(facts, b)) for b in gets}
    vals = list(sets.values())
    ok = all(v == vals[0] for v in vals) if vals else False
    ctx.ob("C02-R5", "the entities join get() impls agree", ok, gets[0].loc() if gets else "",
           "" if ok else "callee sets differ between %s" % {k: sorted(v) for k, v in sets.items()})
    aa = [b for b in model.bodies if model.calls_on_field(b, ("raised",), {"add_atomic"}, "AtomicBitSet")]
    def gen_part(cs):
        return {p for p in cs if p.startswith(ALPHABET)}
    for b in aa:
        s = essence(callee_set(facts, b))
        ok2 = bool(vals) and vals[0] <= s and gen_part(vals[0]) == gen_part(s)
        ctx.ob("C02-R5", "%s computes the new handle's generation like the entities join" % b.path, ok2, b.loc(),
               "" if ok2 else "the deferred allocation and the entities join disagree on how the generation of an index is computed: "
               "only in the join %s, only in the allocation %s" % (sorted(vals[0] - s if vals else []), sorted(gen_part(s) - gen_part(vals[0] if vals else set()))))
    # masks agree
    masks = {}
    for im in facts.impls:
        if im["trait"].split("::")[-1] in ("Join", "LendJoin", "ParJoin") and base_ty(im["self_ty"]) == "world::entity::EntitiesRes":
            masks[im["trait"]] = im["assoc"].get("Mask")
    okm = len(set(masks.values())) == 1 and len(masks) >= 2
    ctx.ob("C02-R5", "the entities join impls agree on Mask", okm, "", "" if okm else "masks: %s" % masks)
    # the mask is alive OR raised
    opens = [b for b in facts.bodies if b.name == "open" and b.trait_item and base_ty(b.self_ty or "") == "world::entity::EntitiesRes"]
    for b in opens:
        flds = set()
        for d in b.deps(("param", 0, ())) if False else []:
            pass
        for bid, blk in b.blocks.items():
            for s in blk["stmts"]:
                if s["rv"]["k"] == "ref":
                    pn = b.origin(s["rv"]["place"])
                    if pn[0] == "param" and pn[2][:1] == ("alloc",) and len(pn[2]) == 2:
                        flds.add(pn[2][1])
        ok3 = flds == {"alive", "raised"}
        ctx.ob("C02-R5", "%s mask = alive OR raised" % b.path, ok3, b.loc(), "" if ok3 else "open() reads allocator fields %s" % sorted(flds))


def r6(ctx, facts):
    builders = [a for p, a in facts.adts.items() if any(f["name"] == "built" and f["ty"] == "bool" for v in a["variants"] for f in v["fields"])
                and any(f["ty"] == ENTITY for v in a["variants"] for f in v["fields"])]
    ctx.floor("C02-R6", "entity builders with a `built` flag", len(builders), 2)
    for a in builders:
        p = a["path"]
        ent_field = [f["name"] for f in a["variants"][0]["fields"] if f["ty"] == ENTITY][0]
        db = facts.body(a["drop"]) if a.get("drop") else None
        ctx.ob("C02-R6", "%s has a Drop impl" % p, db is not None, "", "" if db else "builder %s has no Drop impl: an unfinished builder leaks a live entity" % p)
        if db:
            dels = [bb for bb, t in db.calls() if any(tb.path == "world::entity::EntitiesRes::delete" or tb.path == "world::entity::Allocator::kill_atomic"
                                                      for tb in facts.targets(t["callee"])) and db.arg_origin(bb, 1) == ("param", 1, (ent_field,))]
            sw = [(sbb, tv, other) for sbb, org, tv, other in db.switch_edges() if org == ("param", 1, ("built",)) and set(tv) == {0}]
            ok = False
            why = "Drop does not call EntitiesRes::delete(self.%s)" % ent_field if not dels else "Drop does not branch on self.built"
            if dels and sw:
                sbb, tv, other = sw[0]
                unbuilt_edge = (sbb, tv[0])
                built_edge = (sbb, other)
                only_unbuilt = all(d not in db.reachable(0, removed={unbuilt_edge}) for d in dels)
                always, wit = db.must_pass(tv[0], dels)
                ok = only_unbuilt and always
                why = "delete only when unbuilt: %s; always when unbuilt: %s (%s)" % (only_unbuilt, always, db.fmt_path(wit))
            ctx.ob("C02-R6", "%s: Drop deletes the entity exactly when not built" % p, ok, db.loc(), "" if ok else why)
        bb_ = [b for b in facts.bodies if b.name == "build" and b.self_ty and base_ty(b.self_ty) == p]
        ctx.ob("C02-R6", "%s has build()" % p, bool(bb_), "", "" if bb_ else "no build()")
        for b in bb_:
            sets = [d for d in b.defs().get(1, []) if d[3] == ("built",) and d[0] == "stmt" and rv_const_bool(d[4]) is True]
            ret = b.operand_origin({"copy": {"local": 0, "proj": []}})
            okb = bool(sets) and all(r not in b.reachable(0, stop=[d[1] for d in sets]) or r in [d[1] for d in sets] for r in b.returns())
            # drop of self must come after the store (same block ordering is statement-before-terminator)
            okr = ret == ("param", 1, (ent_field,))
            ctx.ob("C02-R6", "%s::build marks built before self is dropped and returns self.%s" % (p, ent_field), okb and okr, b.loc(),
                   "" if okb and okr else "build(): built=true on all paths: %s; returns the builder's entity: %s (%r)" % (okb, okr, ret))


def r7(ctx, facts):
    da = [b for b in facts.bodies if b.trait_item == "world::world_ext::WorldExt::delete_all"]
    ctx.anchor("C02-R7", "WorldExt::delete_all", da)
    for b in da:
        des = [bb for bb, t in b.calls() if t["callee"].get("path") == "world::world_ext::WorldExt::delete_entities"]
        ok = False
        why = "delete_all does not call delete_entities"
        for d in des:
            deps = b.deps(b.arg_origin(d, 1))
            col = [x for x in deps if x[0] == "call" and b.term(x[1])["callee"].get("name") == "collect"]
            jn = [x for x in deps if x[0] == "call" and b.term(x[1])["callee"].get("path") in ("join::Join::join", "join::lend_join::LendJoin::lend_join")
                  and "EntitiesRes" in (b.term(x[1])["callee"].get("self_ty") or "")]
            ok = bool(col) and bool(jn)
            why = "" if ok else "the batch given to delete_entities does not originate in collect() of the entities join (collect: %s, join over EntitiesRes: %s)" % (bool(col), bool(jn))
            okp, wit = b.must_pass(0, [d])
            if not okp:
                ok = False
                why = "delete_all can return without deleting: %s" % b.fmt_path(wit)
        ctx.ob("C02-R7", "delete_all deletes the collected entities join", ok, b.loc(), why)
