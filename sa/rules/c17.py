"""C17 - indices of dead entities are recycled."""
from ..alloc import AllocModel
from . import _alloc_rules

ARMED = True
TECHNIQUE = "must-pass-through pairing over the MIR CFG (death site => free-list push on every path to return) + value-origin of the fresh-index counter"
EXPLANATION = (
    "R1 (every death is recycled): death sites are discovered by role (BitSet::remove on the allocator's `alive` field). From each "
    "death site (and from every call that kills a generation slot) every CFG path to a normal return must pass a recycle site: a call on the allocator's free-list field of a method "
    "that grows its vector (derived: EntityCache methods that call Vec::push/extend/... on their `cache` field). R1b: the recycled "
    "collection and the dying index share a data root other than the bare receiver. R2 (fresh index only when the free list is empty): "
    "every modification of the `max_id` counter (atomic RMW, helper that does one, or a store through get_mut) sits in the failure "
    "fallback of a free-list pop (closure passed to Option::unwrap_or_else/or_else on the pop result, or the None edge of a match on it). "
    "R4 (recycled prefix counts only elements that died): in a body that kills a batch parameter in a loop, a recycle site fed by the "
    "whole batch is unreachable from the rejection edge of the aliveness test, and a recycle site fed by a bounded part of the batch (range / take / "
    "split_at) has an exclusive bound that is the loop's enumerate() counter of the rejected element, or a local all of whose non-constant "
    "assignments happen after the element's death within the iteration (or, on every reaching definition, a counter in step with the loop / the batch's length). R5 (the free list takes all it is handed): in every growing method of the free list the data reaching the vector's growth call is the method's own parameter, untouched by selective adaptors (filter / take / skip / dedup ..), the growth lies on every path, and inside a loop every item is pushed. On the tree before fix fbc41d8 R1 reports Allocator::kill: path die -> loop head -> is_alive false -> return Err bypasses the extend."
)
LEVEL_TEXT = ("All CFG paths of the allocator's generic MIR: wherever an index's alive bit is cleared, every path to a normal return pushes onto "
              "the free list (this pairing rule found the genuine defect F1, fixed in fbc41d8), and the fresh-index counter is only touched in "
              "the failure fallback of a free-list pop. These are the two mechanisms the property names; the arithmetic bound is not decided.")
NOT_DECIDED = ("the numeric bound itself (that LIFO recycling plus these pairings imply index < peak population, an inductive argument over "
               "histories); that the recycled slice is exactly the killed prefix (value-dependent range arithmetic)")
TRUSTED = ["rustc nightly MIR construction", "Vec/BitSet method semantics by name (push/extend grow, remove clears a bit)", "sa/ analyses"]


def run(ctx):
    ctx.rule("C17-R1", "every index whose alive bit is cleared is pushed onto the free list on every path to return")
    ctx.rule("C17-R1b", "the recycled collection shares a data root with the dying index")
    ctx.rule("C17-R2", "the fresh-index counter is bumped only where a free-list pop failed")
    ctx.rule("C17-R4", "a batch kill recycles only elements that died: the bound of the recycled prefix counts completed kills")
    ctx.rule("C17-R3", "no index is lost in merge: every pending creation becomes alive or is reported dead (and then recycled by R1)")
    ctx.rule("C17-R5", "the free list takes every index it is handed: its growing methods push the whole of their parameter")
    for cfg in (["A", "N"] if ctx.tier == "quick" else ["A", "F", "N", "FN"]):
        facts = ctx.xfacts(cfg)
        model = AllocModel(facts)
        ctx.anchor("C17-R1", "free-list growers (EntityCache methods pushing onto `cache`)", model.growers)
        model.recyclers()
        ctx.note("[%s] growers: %s; must-recycle wrappers: %s" % (cfg, sorted(model.growers), sorted(model.recyclers())))
        r5(ctx, facts, model)
        nd = 0
        for b in model.bodies + model.closures:
            deaths = model.death_sites(b) + [(bb, b.term(bb)) for bb, k in model.gen_slot_calls(b, model.die)]
            if not deaths:
                continue
            rec = model.recycle_sites(b)
            rblocks = {bb for bb, _ in rec}
            ords = b.ordinals([bb for bb, _ in deaths])
            for bb, t in deaths:
                i = ords[bb]
                nd += 1
                ok, wit = b.must_pass(bb, rblocks)
                ctx.ob("C17-R1", "%s die->recycle #%d" % (b.path, i), ok, b.loc(bb),
                       "" if ok else "index killed here is not pushed to the free list on path %s (recycle sites: %s)" % (
                           b.fmt_path(wit), [b.loc(x) for x in sorted(rblocks)] or "none"))
                # R1b: shared data root
                if rec and t["callee"].get("name") == "remove":
                    droots = nontrivial_roots(b, b.arg_origin(bb, 1))
                    shared = False
                    for rbb, rt in rec:
                        rroots = set()
                        for a in rt["args"][1:]:
                            rroots |= nontrivial_roots(b, b.operand_origin(a))
                        if droots & rroots:
                            shared = True
                    ctx.ob("C17-R1b", "%s die#%d shares a root with the recycled collection" % (b.path, i),
                           True if shared else "undetermined", b.loc(bb),
                           "" if shared else "could not relate the recycled collection to the dying index (roots %s)" % sorted(map(repr, droots)))
        ctx.floor("C17-R1", "death sites in the allocator", nd, 2)
        _alloc_rules.merge_accounting(ctx, facts, model, {'revive': 'C17-R3'})
        r4(ctx, facts, model)
        n, _ = _alloc_rules.fresh_only_after_failed_pop(ctx, facts, "C17-R2")
        ctx.floor("C17-R2", "counter bump sites", n, 2)


def nontrivial_roots(b, org):
    out = set()
    for r in b.roots(org):
        if r[0] == "param" and (r[2] or r[1] != 1):
            out.add(r)
        elif r[0] == "call":
            out.add(r)
    return out


RANGE_EXCL = {"std::ops::RangeTo", "std::ops::Range"}
RANGE_INCL = {"std::ops::RangeToInclusive", "std::ops::RangeInclusive"}


def r4(ctx, facts, model):
    from ..summaries import AliveClass, entity_of_index
    alive = AliveClass(facts)
    for b in model.bodies:
        deaths = model.death_sites(b)
        if not deaths:
            continue
        # loops over a batch parameter
        loops = []
        for nbb, nt in b.calls():
            if nt["callee"].get("path") == "std::iter::Iterator::next" and any(r[0] == "param" and r[1] >= 2 and not r[2] for r in b.roots(b.arg_origin(nbb, 0))):
                for ve in b.variant_edges(lambda so: so == ("call", nbb, ())):
                    if ve["edges"].get("Some"):
                        loops.append((nbb, ve["edges"]["Some"][1]))
        # the kill loop is the one whose body contains a death
        loops = [(n_, s_) for n_, s_ in loops if any(bb in b.reachable(s_, stop=[n_]) for bb, _ in deaths)]
        if not loops:
            continue
        nbb, some_t = loops[0]
        counter = ("call", nbb, ("as Some", "0", "0"))
        dblocks = [bb for bb, _ in deaths]
        # rejection edges: false edges of is_alive tests on the current element
        xs = {entity_of_index(b, b.arg_origin(bb, 1)) for bb, _ in deaths}
        rej = []
        for x in xs:
            if x is not None:
                # (only tests that GUARD a death: a death is reachable from the true edge within the same iteration.  An always-true
                # `debug_assert!(!self.is_alive(entity))` after the death - benign C02-s1 - continues on its false edge and rejects nothing)
                rej += [e["false_edge"][1] for e in alive.guard_edges(b, x)
                        if any(dbb in b.reachable(e["true_edge"][1], stop=[nbb]) for dbb in dblocks)]
        for i, (rbb, rt) in enumerate(model.recycle_sites(b)):
            key = "%s recycle #%d" % (b.path, i)
            deps = set()
            for a in rt["args"][1:]:
                deps |= b.deps(b.operand_origin(a))
            if not any(d[0] == "param" and d[1] >= 2 for d in deps):
                continue
            bounds = []
            for d in deps:
                if d[0] == "agg":
                    rv = b.blocks[d[1]]["stmts"][d[2]]["rv"]
                    if rv.get("adt") in RANGE_EXCL | RANGE_INCL and rv["ops"]:
                        bounds.append((rv["adt"], b.operand_origin(rv["ops"][-1]), b.blocks[d[1]]["stmts"][d[2]].get("line"), d))
                elif d[0] == "call":
                    c = b.term(d[1])["callee"]
                    if c.get("name") in ("take", "split_at", "split_at_mut", "get", "take_while") and len(b.term(d[1])["args"]) >= 2:
                        a1 = b.term(d[1])["args"][1]
                        if isinstance(a1, dict) and a1.get("ty") == "usize":
                            bounds.append(("call " + c["name"], b.operand_origin(a1), b.term(d[1])["line"], d))
            if not bounds:
                ok = not any(rbb in b.reachable(t) for t in rej)
                ctx.ob("C17-R4", key + " (whole batch) unreachable after a rejected element", ok, b.loc(rbb),
                       "" if ok else "the whole batch is pushed onto the free list on a path where an element was rejected: indices of entities that were "
                       "not killed (still alive, or already free) get recycled and are handed out a second time")
                continue
            for kind, e, line, bdep in bounds:
                ok = False
                why = ""
                if kind in RANGE_INCL:
                    why = "inclusive range bound: the rejected element itself is recycled"
                elif e == counter:
                    ok = True
                elif counted_bound(b, bdep, rbb):
                    # the bound is a counter in step with the loop over the batch (what `iter().position(..)` is rewritten to), or - where the
                    # loop ran to exhaustion - the batch's full length (`position(..).unwrap_or(batch.len())`)
                    ok = True
                elif e[0] in ("phi",) or (e[0] == "op"):
                    # a count: every non-constant assignment must come after the death of the element within the iteration
                    locs = [e[1]] if e[0] == "phi" else []
                    defs_ok = bool(locs)
                    for l in locs:
                        for d in b.defs().get(l, []):
                            if d[0] == "stmt" and d[4]["k"] == "use" and "const" in (d[4]["ops"][0] if isinstance(d[4]["ops"][0], dict) else {}):
                                continue
                            if d[0] == "stmt" and d[4]["k"] == "use" and b.operand_origin(d[4]["ops"][0]) == counter:
                                continue   # assigning the (exclusive) counter of the current element is always right
                            if d[1] in b.reachable(some_t, stop=dblocks) and d[1] not in dblocks:
                                defs_ok = False
                                why = "the count bounding the recycled prefix is advanced (line %s) before the element's death: a rejected element is counted as killed" % (
                                    b.blocks[d[1]]["stmts"][d[2]].get("line") if d[2] >= 0 else b.term(d[1])["line"])
                    ok = defs_ok
                    if not ok and not why:
                        why = "bound of the recycled prefix is computed from the loop counter (%r), not the counter itself" % (e,)
                else:
                    why = "cannot relate the bound of the recycled prefix to the number of completed kills (%r)" % (e,)
                    ctx.ob("C17-R4", key + " prefix bound counts completed kills", "undetermined", b.loc(line=line), why)
                    continue
                ctx.ob("C17-R4", key + " prefix bound counts completed kills", ok, b.loc(line=line), why)


def counted_bound(b, dep, use_bb):
    """dep: the range aggregate / slicing call the recycled prefix is cut with.  True if its bound operand is, on every definition that
    reaches it, a counter in step with a loop over the batch parameter or the length of the batch."""
    from .c02 import batch_loops
    if dep[0] == "agg":
        st = b.blocks[dep[1]]["stmts"][dep[2]]
        op, at = st["rv"]["ops"][-1], (dep[1], dep[2])
    elif dep[0] == "call":
        t = b.term(dep[1])
        if len(t["args"]) < 2:
            return False
        op, at = t["args"][1], (dep[1], len(b.blocks[dep[1]]["stmts"]))
    else:
        return False
    loops = batch_loops(b)
    if not loops:
        return False

    def ok_operand(o, at_, depth=0):
        if depth > 4:
            return False
        root = b.copy_root(o, at_)
        if root is None:
            org = b.operand_origin(o, at=at_)
            return org[0] == "call" and b.term(org[1])["callee"].get("name") == "len" and any(r[0] == "param" and r[1] >= 2 for r in b.roots(b.arg_origin(org[1], 0)))
        local, pt = root
        for nbb, some_t in loops:
            if b.counts_iterations(local, nbb, some_t, [use_bb])[0]:
                return True
        rd, entry = b.reaching_defs(local, pt)
        if entry or not rd:
            return False
        for bb_, idx_ in rd:
            if idx_ < 0:
                tt = b.term(bb_)      # defined by a call: only `batch.len()` is accepted
                if not (tt["k"] == "call" and tt["callee"].get("name") == "len" and any(r[0] == "param" and r[1] >= 2 for r in b.roots(b.arg_origin(bb_, 0)))):
                    return False
                continue
            st_ = b.blocks[bb_]["stmts"][idx_]
            rv_ = st_["rv"]
            if rv_["k"] != "use" or not ok_operand(rv_["ops"][0], (bb_, idx_), depth + 1):
                return False
        return True
    return ok_operand(op, at)


SELECTIVE = {"filter", "filter_map", "take", "skip", "take_while", "skip_while", "step_by", "map_while", "dedup", "dedup_by", "dedup_by_key", "retain", "truncate"}


def r5(ctx, facts, model):
    """R1 establishes that every death reaches a recycle call; R5 that the recycle call does not quietly drop some of what it is given: in
    every growing method of the free list (`extend`, a `push` helper ..) the data that reaches the vector's growth call is the method's own
    parameter, untouched by selective adaptors, and the growth is on every path (an index filtered out as 'already listed' or skipped by an
    early return is leaked for the life of the world)."""
    allb = getattr(facts, "all_bodies", facts.bodies)
    n = 0
    for b in allb:
        if b.path not in model.growers:
            continue
        n += 1
        grows = [(bb, t) for bb, t in b.calls() if t["callee"].get("name") in ("push", "extend", "extend_from_slice", "append", "insert") and
                 ("vec::Vec" in ((t["callee"].get("self_ty") or "") + t["callee"].get("path", ""))) and model.field_of(b, b.arg_origin(bb, 0)) == ("cache",)]
        if not grows:
            continue
        ok, wit = b.must_pass(0, [bb for bb, _ in grows])
        why = "" if ok else "the method can return without growing the free list: %s" % b.fmt_path(wit)
        for bb, t in grows:
            if len(t["args"]) < 2:
                continue
            ao = b.arg_origin(bb, len(t["args"]) - 1)
            deps = b.deps(ao) | {ao}
            sel = sorted({b.term(d[1])["callee"].get("name") for d in deps if d[0] == "call" and b.term(d[1])["callee"].get("name") in SELECTIVE})
            from_param = any(d[0] == "param" and d[1] >= 2 for d in deps)
            if sel or not from_param:
                ok = False
                why = "what is pushed onto the free list %s: indices handed to the free list can be dropped, i.e. leaked" % (
                    ("goes through %s" % sel) if sel else "does not come from the method's parameter")
        # a guard in front of the push (`if !self.listed.contains(i)`) inside a loop is the same thing written imperatively
        for bb, t in grows:
            if b.in_loop(bb):
                nexts = [nbb for nbb, nt in b.calls() if nt["callee"].get("name") == "next" and bb in b.reachable(nbb) and nbb in b.reachable(bb)]
                for nbb in nexts:
                    for ve in b.variant_edges(lambda so, nbb=nbb: so == ("call", nbb, ())):
                        some = ve["edges"].get("Some")
                        if some and not b.must_pass(some[1], [bb], goals=[nbb] + b.returns())[0]:
                            ok = False
                            why = "an item of the iteration can be skipped without being pushed onto the free list (a leaked index)"
        ctx.ob("C17-R5", "%s pushes all of its parameter onto the free list" % b.path, ok, b.loc(), why)
    ctx.floor("C17-R5", "growing methods of the free list", n, 1)
    # ... and the callers hand over everything they killed: what a recycle call is given does not go through a selective adaptor either
    sites = 0
    nth = {}
    for b in allb:
        if b.path in model.growers:
            continue
        for bb, t in sorted(b.real_calls(), key=lambda x: (x[1].get("line") or 0, x[0])):
            tg = {x.path for x in facts.targets(t["callee"])} | {t["callee"].get("path")}
            if not (tg & set(model.growers)) or len(t["args"]) < 2:
                continue
            sites += 1
            nth[b.path] = nth.get(b.path, 0) + 1
            ao = b.arg_origin(bb, len(t["args"]) - 1)
            deps = b.deps(ao) | {ao}
            sel = sorted({b.term(d[1])["callee"].get("name") for d in deps if d[0] == "call" and isinstance(b.term(d[1])["callee"], dict) and
                          b.term(d[1])["callee"].get("name") in SELECTIVE})
            # the expansion layer turns `iter().filter(..).map(..).collect()` into a loop with a branch, where no `filter` call is left to see:
            # ask the unexpanded body as well (seed C10-k1: `let dead: Vec<_> = delete.iter().filter(|e| !self.is_alive(e)).map(..).collect();
            # self.cache.extend(dead)` - also recycles the index of the stale handle that made the batch fail)
            try:
                raw = ctx.facts(facts.config)
                for rb in raw.by_path.get(b.src(bb), []) or raw.by_path.get(b.path, []):
                    for rbb, rt in rb.real_calls():
                        rtg = {x.path for x in raw.targets(rt["callee"])} | {rt["callee"].get("path")}
                        if (rtg & set(model.growers)) and len(rt["args"]) >= 2 and rt.get("line") == t.get("line"):
                            rao = rb.arg_origin(rbb, len(rt["args"]) - 1)
                            rdeps = rb.deps(rao) | {rao}
                            sel = sorted(set(sel) | {rb.term(d[1])["callee"].get("name") for d in rdeps if d[0] == "call" and
                                                     isinstance(rb.term(d[1])["callee"], dict) and rb.term(d[1])["callee"].get("name") in SELECTIVE})
            except Exception:
                pass
            ctx.ob("C17-R5", "%s hands the free list everything it collected (%s, site %d)" % (b.path, t["callee"].get("name"), nth[b.path]), not sel, b.loc(bb),
                   "" if not sel else "the indices passed to the free list go through %s first: an index that was killed but filtered out here is never "
                   "handed out again (leaked for the life of the world)" % sel)
    ctx.floor("C17-R5", "call sites of the free list's growing methods", sites, 2)
