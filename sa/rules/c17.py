"""C17 - indices of dead entities are recycled."""
from ..alloc import AllocModel
from . import _alloc_rules

ARMED = True
TECHNIQUE = "must-pass-through pairing over the MIR CFG (death site => free-list push on every path to return) + value-origin of the fresh-index counter"
EXPLANATION = (
    "R1 (every death is recycled): death sites are discovered by role (BitSet::remove on the allocator's `alive` field). From each "
    "death site (and from every call that kills a generation slot) every CFG path to a normal return must pass a recycle site: a call on the allocator's free-list field of a method "
    "that grows its vector (derived: EntityCache methods that call Vec::push/extend/... on their `cache` field). R1b: the recycled "
    "collection and the dying index share a data root other than the bare receiver. R2 (fresh index only when the free list is empty): "
    "every modification of the `max_id` counter (atomic RMW, helper that does one, or a store through get_mut) sits in the failure "
    "fallback of a free-list pop (closure passed to Option::unwrap_or_else/or_else on the pop result, or the None edge of a match on it). "
    "On the tree before fix fbc41d8 R1 reports Allocator::kill: path die -> loop head -> is_alive false -> return Err bypasses the extend."
)
LEVEL_TEXT = ("All CFG paths of the allocator's generic MIR: wherever an index's alive bit is cleared, every path to a normal return pushes onto "
              "the free list (this pairing rule found the genuine defect F1, fixed in fbc41d8), and the fresh-index counter is only touched in "
              "the failure fallback of a free-list pop. These are the two mechanisms the property names; the arithmetic bound is not decided.")
NOT_DECIDED = ("the numeric bound itself (that LIFO recycling plus these pairings imply index < peak population, an inductive argument over "
               "histories); that the recycled slice is exactly the killed prefix (value-dependent range arithmetic)")
TRUSTED = ["rustc nightly MIR construction", "Vec/BitSet method semantics by name (push/extend grow, remove clears a bit)", "sa/ analyses"]


def run(ctx):
    ctx.rule("C17-R1", "every index whose alive bit is cleared is pushed onto the free list on every path to return")
    ctx.rule("C17-R1b", "the recycled collection shares a data root with the dying index")
    ctx.rule("C17-R2", "the fresh-index counter is bumped only where a free-list pop failed")
    ctx.rule("C17-R3", "no index is lost in merge: every pending creation becomes alive or is reported dead (and then recycled by R1)")
    for cfg in (["A"] if ctx.tier == "quick" else ["A", "F", "N", "FN"]):
        facts = ctx.facts(cfg)
        model = AllocModel(facts)
        ctx.anchor("C17-R1", "free-list growers (EntityCache methods pushing onto `cache`)", model.growers)
        model.recyclers()
        ctx.note("[%s] growers: %s; must-recycle wrappers: %s" % (cfg, sorted(model.growers), sorted(model.recyclers())))
        nd = 0
        for b in model.bodies + model.closures:
            deaths = model.death_sites(b) + [(bb, b.term(bb)) for bb, k in model.gen_slot_calls(b, model.die)]
            if not deaths:
                continue
            rec = model.recycle_sites(b)
            rblocks = {bb for bb, _ in rec}
            for i, (bb, t) in enumerate(deaths):
                nd += 1
                ok, wit = b.must_pass(bb, rblocks)
                ctx.ob("C17-R1", "%s die->recycle #%d" % (b.path, i), ok, b.loc(bb),
                       "" if ok else "index killed here is not pushed to the free list on path %s (recycle sites: %s)" % (
                           b.fmt_path(wit), [b.loc(x) for x in sorted(rblocks)] or "none"))
                # R1b: shared data root
                if rec and t["callee"].get("name") == "remove":
                    droots = nontrivial_roots(b, b.arg_origin(bb, 1))
                    shared = False
                    for rbb, rt in rec:
                        rroots = set()
                        for a in rt["args"][1:]:
                            rroots |= nontrivial_roots(b, b.operand_origin(a))
                        if droots & rroots:
                            shared = True
                    ctx.ob("C17-R1b", "%s die#%d shares a root with the recycled collection" % (b.path, i),
                           True if shared else "undetermined", b.loc(bb),
                           "" if shared else "could not relate the recycled collection to the dying index (roots %s)" % sorted(map(repr, droots)))
        ctx.floor("C17-R1", "death sites in the allocator", nd, 2)
        _alloc_rules.merge_accounting(ctx, facts, model, {'revive': 'C17-R3'})
        n, _ = _alloc_rules.fresh_only_after_failed_pop(ctx, facts, "C17-R2")
        ctx.floor("C17-R2", "counter bump sites", n, 2)


def nontrivial_roots(b, org):
    out = set()
    for r in b.roots(org):
        if r[0] == "param" and (r[2] or r[1] != 1):
            out.add(r)
        elif r[0] == "call":
            out.add(r)
    return out
