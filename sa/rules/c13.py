"""C13 - restricted storages expose the same components without changing membership."""
from ..core import base_ty
from . import c03, c12
from .. import witness

ARMED = True
TECHNIQUE = "guard-dominance (other-entity lookups), call-graph reachability (deferred fetch, reads never flag), value-origin of the membership mask, compile-fail witnesses"
EXPLANATION = (
    "R1 (other-entity lookups follow the storage's rules): the C03 guard-dominance rules evaluated on every body of storage::restrict - each raw "
    "access whose index comes from an entity handle is dominated by is_alive of that handle (and each Some is built under it) - plus: the same "
    "access is dominated by the true-edge of contains(restricted mask, same index). R2 (reads do not flag): nothing reachable over the call graph "
    "from PairedStorage*::get / get_other calls get_mut, shared_get_mut or an event write. R3 (fetch is deferred): the get() of all join impls of "
    "&/&mut RestrictedStorage reaches no raw storage accessor; among the methods of the paired item types only get_mut / get_other_mut reach a "
    "mutable accessor, so on a tracked storage only items actually fetched mutably are flagged. R4 (membership unchanged): restrict()/restrict_mut() "
    "build the view from the mask and inner storage of the same MaskedStorage; every restricted join's open() returns that mask; no body of "
    "storage::restrict reaches BitSet::add/remove/clear. W3: the shared-mutable item has no get_other/get_other_mut, the read item no get_mut."
)
NOT_DECIDED = "that a read returns the same VALUE as a direct lookup (values flow through the storage kinds' own get, C04); hibitset iteration"
TRUSTED = ["rustc nightly MIR and trait resolution", "sa/ analyses"]
LEVEL_TEXT = ("All paths of storage::restrict: other-entity lookups repeat the aliveness and membership checks of the storage, reads cannot reach a "
              "flagging accessor, join get() only packages (index, storage) so nothing is fetched until the caller asks, and the mask handed to "
              "the join is the storage's own. Value equality with a direct lookup is not decided.")

US = "storage::UnprotectedStorage"
SG = "storage::SharedGetMutStorage"
ACCESSORS = {US + "::get", US + "::get_mut", US + "::insert", US + "::remove", US + "::drop", SG + "::shared_get_mut"}
MUT_ACCESSORS = {US + "::get_mut", SG + "::shared_get_mut"}
ANCH = [("storage::restrict::PairedStorageRead", "get_other"), ("storage::restrict::PairedStorageWriteExclusive", "get_other"),
        ("storage::restrict::PairedStorageWriteExclusive", "get_other_mut")]


def configs(tier):
    return ["A", "F"] if tier == "quick" else ["A", "F", "N", "FN"]


def run(ctx):
    for r, t in [("C13-R1", "other-entity lookups are guarded by is_alive and the restricted mask"), ("C13-R2", "reads never reach a flagging accessor"),
                 ("C13-R3", "join get() defers all storage access; only get_mut/get_other_mut fetch mutably"),
                 ("C13-R4", "a restricted view has the storage's own membership")]:
        ctx.rule(r, t)
    for cfg in configs(ctx.tier):
        facts = ctx.xfacts(cfg)
        c03.run_config(ctx, facts, R1="C13-R1", R2="C13-R1", only="storage::restrict::", anchors=ANCH, site_floor=3)
        r1_mask(ctx, facts)
        r2(ctx, facts)
        r3(ctx, facts)
        r4(ctx, facts)
    witness.run_set(ctx, "C13", ["w3_shared_item_no_get_other", "w3_shared_item_no_get_other_mut", "w3_read_item_no_get_mut"])


def paired(b):
    return b.self_ty and base_ty(b.self_ty).startswith("storage::restrict::PairedStorage")


def r1_mask(ctx, facts):
    from ..summaries import entity_of_index
    n = 0
    for b in facts.bodies:
        if not paired(b) or not b.name.startswith("get_other"):
            continue
        for bb, t in b.calls():
            if t["callee"].get("path") not in ACCESSORS:
                continue
            io = b.arg_origin(bb, 1)
            x = entity_of_index(b, io)
            if x is None:
                continue
            n += 1

            def is_contains(gbb, gt):
                c = gt["callee"]
                if c.get("name") != "contains" or "BitSet" not in c.get("path", ""):
                    return False
                mo = b.arg_origin(gbb, 0)
                # the restricted view's own mask: the bit set reached from `self` (a paired item holds exactly one - directly or inside a
                # private membership struct)
                return mo[0] == "param" and mo[1] == 1 and mo[2] and entity_of_index(b, b.arg_origin(gbb, 1)) == x
            edges = b.bool_guard_edges(is_contains)
            ok = bool(edges) and bb not in b.reachable(0, removed={e["true_edge"] for e in edges})
            ctx.ob("C13-R1", "%s raw access under the restricted mask" % b.path, ok, b.loc(bb),
                   "" if ok else "other-entity lookup reaches the raw storage without the restricted mask containing that entity's index")
    ctx.floor("C13-R1", "mask-guarded other-entity lookups", n, 3)


def r2(ctx, facts):
    roots = [b for b in facts.bodies if paired(b) and b.name in ("get", "get_other")]
    ctx.floor("C13-R2", "read methods of paired items", len(roots), 5)
    forbidden = lambda b: (b.trait_item in MUT_ACCESSORS) or bool(c12.writes(b))
    for r in roots:
        seen = facts.reach([r])
        bad = [p for p in seen if any(forbidden(x) for x in facts.by_path[p])]
        direct = [t["callee"]["path"] for _, t in r.calls() if t["callee"].get("path") in MUT_ACCESSORS]
        ok = not bad and not direct
        ctx.ob("C13-R2", "%s flags nothing" % r.path, ok, r.loc(),
               "" if ok else "a read path reaches a flagging accessor: %s" % (direct or [facts.chain(seen, p) for p in bad[:2]]))


def r3(ctx, facts):
    gets = [b for b in facts.bodies if b.name == "get" and b.trait_item and b.trait_item.split("::")[-2] in ("Join", "LendJoin", "ParJoin")
            and base_ty(b.self_ty or "") == "storage::restrict::RestrictedStorage"]
    ctx.floor("C13-R3", "join get() impls of restricted storages", len(gets), 4)
    for g in gets:
        seen = facts.reach([g], edge_filter=lambda bd, bb, t: True)
        hits = []
        for p in seen:
            for x in facts.by_path[p]:
                for bb, t in x.calls():
                    if t["callee"].get("path") in ACCESSORS:
                        hits.append("%s at %s" % (t["callee"]["path"], x.loc(bb)))
        ctx.ob("C13-R3", "%s defers storage access" % g.path, not hits, g.loc(),
               "" if not hits else "join get() of a restricted storage already touches the storage (%s): on a tracked storage every visited item "
               "would be flagged, not only those fetched mutably" % hits[:3])
    meths = [b for b in facts.bodies if paired(b) and not b.trait_item and b.kind != "Closure"]
    for m in meths:
        seen = facts.reach([m])
        mut = []
        for p in seen:
            for x in facts.by_path[p]:
                for bb, t in x.calls():
                    if t["callee"].get("path") in MUT_ACCESSORS:
                        mut.append(x.loc(bb))
        allowed = m.name in ("get_mut", "get_other_mut")
        ok = allowed or not mut
        ctx.ob("C13-R3", "%s mutable fetch only in get_mut/get_other_mut" % m.path, ok, m.loc(),
               "" if ok else "a method other than get_mut/get_other_mut reaches a mutable accessor at %s" % mut[:3])


def r4(ctx, facts):
    # constructors
    for name in ("restrict", "restrict_mut"):
        bs = [b for b in facts.methods_named("storage::Storage", name) if not b.trait_item]
        ctx.anchor("C13-R4", "Storage::%s" % name, bs)
        for b in bs:
            ok = False
            why = "no RestrictedStorage aggregate"
            for bid, blk in b.blocks.items():
                for s in blk["stmts"]:
                    rv = s["rv"]
                    if rv["k"] == "aggregate" and rv.get("adt") == "storage::restrict::RestrictedStorage":
                        adt = facts.adts[rv["adt"]]
                        names = [f["name"] for f in adt["variants"][0]["fields"]]
                        fo = {n: b.operand_origin(rv["ops"][i]) for i, n in enumerate(names)}
                        mroots = {r for r in b.roots(fo["bitset"]) if r[0] == "param"}
                        droots = {r for r in b.roots(fo["data"]) if r[0] == "param"}
                        mdeps = b.deps(fo["bitset"])
                        has_mask = fo["bitset"][-1][-1:] == ("mask",) or any(d[0] == "call" and b.term(d[1])["callee"].get("name") == "open_mut" for d in mdeps)
                        ok = bool(mroots) and mroots == droots and all(r[2][:1] == ("data",) for r in mroots) and has_mask
                        why = "" if ok else "view built from mask roots %s / data roots %s (mask field: %s)" % (sorted(map(repr, mroots)), sorted(map(repr, droots)), has_mask)
            ctx.ob("C13-R4", "%s pairs the storage's own mask with its inner storage" % b.path, ok, b.loc(), why)
    opens = [b for b in facts.bodies if b.name == "open" and b.trait_item and base_ty(b.self_ty or "") == "storage::restrict::RestrictedStorage"]
    ctx.floor("C13-R4", "join open() impls of restricted storages", len(opens), 4)
    for b in opens:
        # component 0 of the returned tuple is self.bitset
        ros = b.ret_origins(0)
        ok = bool(ros) and all(o[0] == "param" and o[1] == 1 and o[2][:1] == ("bitset",) for o in ros)
        ctx.ob("C13-R4", "%s returns the view's mask" % b.path, ok, b.loc(), "" if ok else "open() does not return self.bitset as the join mask")
    bad = []
    for b in facts.bodies:
        if "storage::restrict::" not in b.path and not (b.self_ty and "storage::restrict::" in b.self_ty):
            continue
        for bb, t in b.calls():
            c = t["callee"]
            if c.get("name") in ("add", "remove", "clear", "add_atomic") and "BitSet" in c.get("path", ""):
                bad.append("%s at %s" % (c["path"], b.loc(bb)))
    ctx.ob("C13-R4", "storage::restrict never changes a membership mask", not bad, "", "" if not bad else "mask mutation in restrict.rs: %s" % bad)
