"""C11 - systems dispatched in parallel never overlap with a writer of the same storage (clause: declarations = borrows)."""
import collections

from ..core import base_ty
from .. import witness

ARMED = True
TECHNIQUE = "sibling agreement between reads()/writes() declarations and the borrows in fetch() (multisets of generic arguments in MIR) + compile-fail witnesses"
EXPLANATION = (
    "The staging and scheduling of systems is shred's dispatcher, re-exported by specs, and is not decided. What specs itself contributes is decided: "
    "R1 (declarations = borrows): for every impl of shred::SystemData in specs, the multiset of resource types borrowed shared in fetch() "
    "(World::fetch::<R>, Read/ReadExpect fetches) equals the multiset of ResourceId::new::<R> in reads(), and the multiset borrowed exclusively "
    "(World::fetch_mut::<R>) equals the one in writes(); every such declaration and borrow is unconditional (on every path to return - a borrow declared only for some component types is an undeclared borrow for the others) and no declaration goes through a function-local static (one static is shared by all instantiations of a generic impl); setup() creates exactly the resources fetch() will borrow that are not created by "
    "World::new (C05-R1 checks their registration). R2: the storage handle's two halves are the declared ones: Storage::new is handed the "
    "EntitiesRes fetch and the MaskedStorage<T> fetch of the same T as the impl's component type. W5: on a storage fetched through the READ "
    "declaration none of insert / get_mut / remove / entry / restrict_mut / channel_mut / drain / clear / as_mut_slice type-checks (E0599), the same "
    "program on the WRITE declaration does; nor can it be joined mutably - Join::join / LendJoin::lend_join / ParJoin::par_join of `&mut ReadStorage` are rejected (E0277, fully qualified because the method-call form auto-derefs to the shared join); the entities resource in system data cannot be borrowed mutably (E0596)."
)
NOT_DECIDED = ("shred's stage builder, dispatcher, thread pool and runtime borrow checks; that every system runs exactly once and dependencies are respected")
TRUSTED = ["rustc nightly MIR, generic-argument printing and type checking", "shred", "sa/ analyses"]
LEVEL_TEXT = ("Declaration clause only: a wrong reads()/writes() declaration compiles and only shows as a data race or a runtime borrow panic under a "
              "particular schedule; here the declarations are compared with what fetch() really borrows, as multisets of types, and the read handle is "
              "shown by the compiler to be unable to mutate. Scheduling itself is shred's and NOT decided.")

SD = "shred::SystemData"


def configs(tier):
    return ["A"] if tier == "quick" else ["A", "F", "N", "FN"]


def run(ctx):
    ctx.rule("C11-R1", "reads()/writes() declare exactly what fetch() borrows")
    ctx.rule("C11-R2", "the storage handle is built from the declared resources of the same component type")
    for cfg in configs(ctx.tier):
        facts = ctx.xfacts(cfg)
        r1(ctx, facts)
    witness.run_set(ctx, "C11", ["w5_read_storage_no_insert", "w5_read_storage_no_get_mut", "w5_read_storage_no_remove", "w5_read_storage_no_entry",
                                 "w5_read_storage_no_restrict_mut", "w5_read_storage_no_channel_mut", "w5_read_storage_no_drain",
                                 "w5_read_storage_no_clear", "w5_read_storage_no_as_mut_slice", "w5_entities_not_mut",
                                 "w5_read_storage_no_mut_join", "w5_read_storage_no_mut_lend_join", "w5_read_storage_no_mut_par_join",
                                 "w13_unsync_component_vecstorage", "w13_unsync_component_densevecstorage", "w13_unsync_component_defaultvecstorage",
                                 "w13_unsync_component_hashmapstorage", "w13_unsync_component_btreestorage"])


def borrows(b):
    sh, ex = collections.Counter(), collections.Counter()
    for bb, t in b.calls():
        c = t["callee"]
        p = c.get("path", "")
        subs = c.get("substs", [])
        if p in ("shred::World::fetch", "shred::World::try_fetch") and subs:
            sh[subs[0]] += 1
        elif p in ("shred::World::fetch_mut", "shred::World::try_fetch_mut") and subs:
            ex[subs[0]] += 1
        elif p == "shred::SystemData::fetch":
            st = c.get("self_ty") or ""
            inner = st[st.index("<") + 1:].split(",")[-2 if st.count(",") >= 2 else -1].strip(" >") if "<" in st else st
            if base_ty(st).endswith(("Read", "ReadExpect")):
                sh[inner] += 1
            elif base_ty(st).endswith(("Write", "WriteExpect")):
                ex[inner] += 1
    return sh, ex


def declared(b):
    out = collections.Counter()
    for bb, t in b.calls():
        c = t["callee"]
        if c.get("path") == "shred::ResourceId::new" and c.get("substs"):
            out[c["substs"][0]] += 1
    return out


def r1(ctx, facts):
    impls = facts.impls_of(SD)
    ctx.floor("C11-R1", "SystemData impls in specs", len(impls), 2)
    for im in impls:
        st = im["self_ty"]
        f, r, w = (facts.body(im["items"].get(n, "")) for n in ("fetch", "reads", "writes"))
        where = "%s:%d" % (im["file"], im["line"])
        if not (f and r and w):
            ctx.ob("C11-R1", "%s has fetch/reads/writes bodies" % st, False, where, "missing body")
            continue
        sh, ex = borrows(f)
        dr, dw = declared(r), declared(w)
        ok = sh == dr
        ctx.ob("C11-R1", "%s: reads() == shared borrows of fetch()" % st, ok, r.loc(),
               "" if ok else "declared reads %s but fetch() borrows shared %s: the dispatcher may run this system concurrently with a writer (or serialise needlessly)" % (dict(dr), dict(sh)))
        ok = ex == dw
        ctx.ob("C11-R1", "%s: writes() == exclusive borrows of fetch()" % st, ok, w.loc(),
               "" if ok else "declared writes %s but fetch() borrows exclusively %s: two systems may write the same storage at once, or a borrow panics at run time" % (dict(dw), dict(ex)))
        # a declaration of a generic impl must be computed per instantiation: a function-local static is shared by all of them
        owners = {x["static"].rsplit("::", 1)[0] for x in facts.statics}
        for nm, body in (("reads", r), ("writes", w)):
            srcs = {body.path} | {body.src(bb) for bb in body.blocks}
            hit = sorted(o for o in owners if any(x == o or x.startswith(o + "::") for x in srcs))
            ctx.ob("C11-R1", "%s: %s() is computed per instantiation (no function-local static)" % (st, nm), not hit, body.loc(),
                   "" if not hit else "the declaration goes through a static item of %s: in a generic impl one static is shared by every component type, "
                   "so all storages declare the resources of whichever type asked first" % hit)
        # a declaration is unconditional: every ResourceId::new of reads()/writes() lies on every path to return (a borrow that is declared
        # only `if size_of::<T>() != 0`, only for some storage kinds .. is an undeclared borrow for the others); likewise every borrow of fetch()
        for nm, body in (("reads", r), ("writes", w), ("fetch", f)):
            cond = []
            for bb, t in body.real_calls():
                pth = t["callee"].get("path", "")
                if pth == "shred::ResourceId::new" or (nm == "fetch" and pth in ("shred::World::fetch", "shred::World::fetch_mut")):
                    okp, wit = body.must_pass(0, [bb])
                    if not okp:
                        cond.append("%s at %s (bypassed by %s)" % ((t["callee"].get("substs") or ["?"])[0], body.loc(bb), body.fmt_path(wit)))
            ctx.ob("C11-R1", "%s: %s() declares / borrows unconditionally" % (st, nm), not cond, body.loc(),
                   "" if not cond else "conditional: %s - for the inputs that skip it the declaration and the borrow disagree, so the dispatcher can overlap this "
                   "system with a writer of a storage it reads" % "; ".join(cond[:3]))
        ok = not (set(sh) & set(ex))
        ctx.ob("C11-R1", "%s: no resource is borrowed both ways" % st, ok, f.loc(), "" if ok else "fetch() borrows %s both shared and exclusively" % sorted(set(sh) & set(ex)))
        # R2
        news = [(bb, t) for bb, t in f.calls() if t["callee"].get("path", "").startswith("storage::Storage::") and t["callee"].get("name") == "new"]
        ok2 = False
        why = "fetch() does not build the Storage from its two fetches"
        for bb, t in news:
            a0, a1 = f.arg_origin(bb, 0), f.arg_origin(bb, 1)
            if a0[0] == "call" and a1[0] == "call":
                s0 = f.term(a0[1])["callee"].get("substs", [None])[0]
                s1 = f.term(a1[1])["callee"].get("substs", [None])[0]
                comp = None
                for s in t["callee"].get("substs", []):
                    if not s.startswith(("'", "shred::")):
                        comp = s
                ok2 = s0 == "world::entity::EntitiesRes" and s1 == "storage::MaskedStorage<%s>" % comp
                why = "" if ok2 else "Storage::new(%s, %s) for component %s" % (s0, s1, comp)
        ctx.ob("C11-R2", "%s: handle = (EntitiesRes, MaskedStorage of the same component)" % st, ok2, f.loc(), why)
        # setup creates what fetch borrows (except the world-wide resources)
        su = facts.body(im["items"].get("setup", ""))
        if su:
            created = {c.get("substs", [None])[0] for _, t in su.calls() for c in [t["callee"]] if c.get("path") in ("shred::World::entry", "shred::World::insert")}
            need = {x for x in list(sh) + list(ex) if x.startswith("storage::MaskedStorage")}
            ok3 = need <= created
            ctx.ob("C11-R1", "%s: setup() creates the storage fetch() borrows" % st, ok3, su.loc(), "" if ok3 else "fetch() borrows %s, setup() creates %s" % (sorted(need), sorted(created)))
