"""C19 - a panicking component destructor cannot cause a double drop or a stale read."""
from ..core import base_ty, generic_args, strip_ref

ARMED = True
TECHNIQUE = "must-pass-through / ordering rules over the MIR CFG including unwind edges, with drop-flag constant propagation and drop-glue expansion"
EXPLANATION = (
    "All rules walk MIR unwind edges, which no test reaches. R1 (mask emptied before clean): at every non-delegating call of "
    "UnprotectedStorage::clean (caller is not itself a clean impl) the `has` argument is not rooted in the owner's live mask field, a call "
    "that empties the owner's mask through &mut (mem::take/replace/swap, BitSet::clear) dominates the clean call, and the cleanup path "
    "reached through the clean call's unwind edge stores nothing back into the owner's mask. R2 (bit cleared before destroying): every "
    "non-delegating call of UnprotectedStorage::drop(_, id) is reachable only through the true-edge of BitSet::remove(sibling mask, same id). "
    "R3 (tables before data): in every UnprotectedStorage::clean impl no mutation of a field that does not hold the component type is "
    "reachable after a call that may run component destructors (container clear on a T-holding field, drop_in_place/assume_init_drop, "
    "inner clean/drop/remove). R4 (remove-on-unwind): where a generic storage's raw insert is followed by a mask update with an unwind edge, "
    "the feasible cleanup path from that edge passes a drop whose glue calls UnprotectedStorage::remove with the same id (infeasible "
    "cfg!(panic=\"abort\") arms are pruned by constant propagation). R5: Drop for MaskedStorage reaches clear on every path (teardown uses R1)."
)
NOT_DECIDED = ("what user destructors do; panics raised by hibitset itself; leak freedom after a panic (the property allows leaks); "
               "storages supplied by users of the library R3 also counts handing the whole &mut self to a sibling method that mutates an index table (an overriding drop() that destroys in place and then calls self.remove(id)).")
TRUSTED = ["rustc nightly drop elaboration and unwind-edge construction", "hibitset BitSet::{remove,clear,add} and mem::take semantics by name",
           "sa/ analyses (selftest: each of the four one-line reverts is reported)"]
LEVEL_TEXT = ("Every unwind path of the generic MIR of the destroying operations (clear, per-index drop, clean of each storage kind, first insert) "
              "is walked: the mask never names a slot whose destructor may already have run. The mechanism is entirely structural, so the rules "
              "decide it for every storage kind and every choice of panicking destructor call.")

EMPTYING = {"core::mem::take", "std::mem::take", "core::mem::replace", "std::mem::replace", "core::mem::swap", "std::mem::swap",
            "hibitset::BitSet::clear"}
CLEAN = "storage::UnprotectedStorage::clean"
UDROP = "storage::UnprotectedStorage::drop"
UINSERT = "storage::UnprotectedStorage::insert"
UREMOVE = "storage::UnprotectedStorage::remove"
MAYDROP_NAMES = {"clear", "truncate", "drain", "pop", "remove", "swap_remove", "retain", "drop_in_place", "assume_init_drop", "clean", "drop"}


def configs(tier):
    return ["A"] if tier == "quick" else ["A", "F", "N", "FN"]


def is_trait_call(t, path):
    return t["callee"].get("path") == path


def mask_sibling(org):
    """origin of the mask that belongs to the same owner as the storage with origin `org`
    (owner.inner / owner.storage ... -> owner.mask)"""
    if org[0] in ("param", "call") and org[-1]:
        return org[:-1] + (org[-1][:-1] + ("mask",),)
    return None


def run(ctx):
    ctx.rule("C19-R1", "the owner's mask is emptied before a non-delegating clean() and stays empty on its unwind path")
    ctx.rule("C19-R2", "the mask bit is cleared (BitSet::remove true-edge) before UnprotectedStorage::drop destroys the slot")
    ctx.rule("C19-R3", "clean(): index tables are reset before any call that may run a component destructor")
    ctx.rule("C19-R4", "raw insert followed by an unwinding mask update removes the value again on the unwind path")
    ctx.rule("C19-R5", "Drop for MaskedStorage reaches clear() on every path")
    ctx.rule("C19-R6", "no re-entrant destruction: the unwind path of a destructor-running call never destroys the same slot again")
    ctx.exception("changeset::ChangeSet::<T>::add", "R4: its storage is the concrete DenseVecStorage, which owns its values in a Vec; "
                  "an unwinding mask update leaves an unreachable but owned value (no double drop, no leak)")
    for cfg in configs(ctx.tier):
        facts = ctx.xfacts(cfg)
        r1(ctx, facts)
        r2(ctx, facts)
        r3(ctx, facts)
        r4(ctx, facts)
        r5(ctx, facts)
        r6(ctx, facts)


def nondelegating_sites(facts, trait_method):
    name = trait_method.rsplit("::", 1)[1]
    out = []
    for b in facts.bodies:
        if b.trait_item and b.trait_item.startswith("storage::UnprotectedStorage::"):
            continue  # a storage impl forwarding to its inner storage / default method
        if b.trait_item is None and b.path.startswith("storage::UnprotectedStorage::"):
            continue  # provided method of the trait itself
        for bb, t in b.calls():
            if is_trait_call(t, trait_method):
                out.append((b, bb, t))
    return out


def r1(ctx, facts):
    sites = nondelegating_sites(facts, CLEAN)
    for i, (b, bb, t) in enumerate(sites):
        key = "%s clean()" % b.path
        storage_org = b.arg_origin(bb, 0)
        has_org = b.arg_origin(bb, 1)
        mask_org = mask_sibling(storage_org)
        where = b.loc(bb)
        if mask_org is None:
            ctx.ob("C19-R1", key, "undetermined", where, "cannot name the owner of the storage being cleaned (%r)" % (storage_org,))
            continue
        # (a) `has` is not the owner's live mask
        live = has_org == mask_org
        ctx.ob("C19-R1", key + " has-arg is not the live mask", not live, where,
               "clean() is handed the owner's live mask: if a destructor unwinds the mask still names destroyed slots" if live else "")
        # (b) an emptying call on the owner's mask dominates the clean call
        empt = []
        for ebb, et in b.calls():
            c = et["callee"]
            if c.get("path") in EMPTYING or (c.get("name") in ("take", "replace", "swap") and "mem::" in c.get("path", "")):
                if any(b.operand_origin(a) == mask_org and str(a.get("ty", "")).startswith("&mut") for a in et["args"] if isinstance(a, dict)):
                    empt.append(ebb)
        dominated = bool(empt) and bb not in b.reachable(0, stop=empt, unwind=False) - set()
        # reachable() includes stop blocks themselves; clean block must not be reachable without passing one
        if empt:
            seen = b.reachable(0, stop=empt)
            dominated = bb not in seen or bb in empt
        ctx.ob("C19-R1", key + " mask emptied first", dominated, where,
               "" if dominated else "no call emptying the owner's mask (mem::take/replace/swap, BitSet::clear) dominates this clean(); "
               "path: %s" % b.fmt_path(b.find_path(0, bb, avoid=empt)))
        # (c) nothing is stored back into the owner's mask on the unwind path of clean
        uw = t.get("unwind")
        if isinstance(uw, int):
            cleanup = b.reachable(uw, unwind=True)
            bad = []
            for sbb, si, dst, rv, line in b.stores():
                if sbb in cleanup and b.origin(dst) == mask_org:
                    bad.append(line)
            # direct (non-deref) assignments to a by-value owner are not possible here; also calls writing the mask
            for cbb in cleanup:
                ct = b.term(cbb)
                if ct["k"] == "call" and any(b.operand_origin(a) == mask_org and str(a.get("ty", "")).startswith("&mut")
                                             for a in ct["args"] if isinstance(a, dict)) and ct["callee"].get("path") not in EMPTYING:
                    bad.append(ct["line"])
            # drop guards on the unwind path that write a BitSet back (e.g. a "put the mask back" guard)
            for cbb in cleanup:
                ct = b.term(cbb)
                if ct["k"] != "drop":
                    continue
                glue, _ = facts.drop_glue(ct["place_ty"])
                for g in glue:
                    gb = facts.body(g)
                    if not gb:
                        continue
                    gadt = facts.adts.get(base_ty(gb.self_ty or "")) or {}
                    gfields = {f["name"]: f["ty"] for v in gadt.get("variants", []) for f in v["fields"]}
                    for gbb, gt in gb.calls():
                        if any(isinstance(a, dict) and str(a.get("ty", "")).startswith("&mut hibitset::BitSet") for a in gt["args"]) and \
                                gt["callee"].get("path") != "hibitset::BitSet::clear":
                            # a guard that puts the taken mask back EMPTIED is the same mechanism made explicit (benign C08-s1, C19-s1:
                            # `self.taken.clear(); mem::swap(self.slot, &mut self.taken)`): the value swapped / moved into the slot is a by-value
                            # BitSet field of the guard that a BitSet::clear of that very field dominates inside the guard's drop
                            vals = []
                            for a in gt["args"]:
                                o = gb.operand_origin(a) if isinstance(a, dict) else None
                                if o and o[0] == "param" and o[1] == 1 and o[2] and not str(gfields.get(o[2][0], "&")).startswith("&"):
                                    vals.append(o)
                            clears = [cb for cb, ct2 in gb.calls() if ct2["callee"].get("path") == "hibitset::BitSet::clear" and ct2["args"] and
                                      gb.arg_origin(cb, 0) in vals]
                            if gt["callee"].get("name") in ("swap", "replace") and "mem::" in (gt["callee"].get("path") or "") and len(vals) == 1 and \
                                    clears and gbb not in gb.reachable(0, stop=clears):
                                continue
                            bad.append("%s (drop guard %s)" % (gb.term(gbb)["line"], g))
                    for sbb, si, dst, rv, line in gb.stores():
                        if "BitSet" in str(rv.get("ops", [{}])[0].get("ty", "")) if rv.get("ops") else False:
                            bad.append("%s (drop guard %s)" % (line, g))
            ctx.ob("C19-R1", key + " unwind path leaves the mask empty", not bad, where,
                   "the cleanup path of clean() writes the owner's mask again at line(s) %s" % bad if bad else "")
    ctx.floor("C19-R1", "non-delegating clean() call sites", len(sites), 2)


def r2(ctx, facts):
    sites = nondelegating_sites(facts, UDROP)
    for b, bb, t in sites:
        key = "%s drop(id)" % b.path
        storage_org = b.arg_origin(bb, 0)
        id_org = b.arg_origin(bb, 1)
        mask_org = mask_sibling(storage_org)

        def is_remove(gbb, gt):
            c = gt["callee"]
            return (c.get("path") == "hibitset::BitSet::remove" and b.arg_origin(gbb, 0) == mask_org
                    and b.arg_origin(gbb, 1) == id_org)
        edges = b.bool_guard_edges(is_remove)
        removed = {e["true_edge"] for e in edges}
        ok = bool(edges) and bb not in b.reachable(0, removed=removed)
        ctx.ob("C19-R2", key, ok, b.loc(bb),
               "" if ok else "the slot is destroyed on a path that has not cleared its mask bit with BitSet::remove (a panicking destructor "
               "would leave the bit set: double drop / stale read); path: %s" % b.fmt_path(b.path_to(bb, removed)))
    ctx.floor("C19-R2", "non-delegating UnprotectedStorage::drop call sites", len(sites), 1)


def t_holding(field_ty, tparam):
    import re
    return re.search(r"(?<![\w:])%s(?![\w:])" % re.escape(tparam), field_ty) is not None


DESTRUCTOR_CALLS = {"drop_in_place", "assume_init_drop"}
CONTAINER_DROPPERS = {"clear", "truncate", "drain", "retain", "retain_mut", "dedup", "dedup_by", "dedup_by_key", "resize", "resize_with", "shrink_to", "split_off"}


def destructor_sites(b, tparam=None, holding=None):
    """blocks of `b` that may run a component destructor: drop_in_place / assume_init_drop, mem::drop of a T-holding value,
    container clear & co on a T-holding field of self, delegated clean/drop, MIR drops of T-holding places (non-cleanup)"""
    out = []
    for bb, t in b.calls():
        c = t["callee"]
        nm = c.get("name")
        if nm in DESTRUCTOR_CALLS:
            out.append(bb)
        elif c.get("path") in (UDROP, CLEAN):
            out.append(bb)
        elif nm == "drop" and c.get("path", "").endswith("mem::drop") and tparam and any(t_holding(x, tparam) for x in c.get("substs", [])):
            out.append(bb)
        elif holding is not None and nm in CONTAINER_DROPPERS and t["args"]:
            o = b.arg_origin(bb, 0)
            if o[0] == "param" and o[1] == 1 and o[2] and o[2][0] in holding:
                out.append(bb)
    if tparam:
        for bid, blk in b.blocks.items():
            tt = blk["term"]
            if tt["k"] == "drop" and not blk["cleanup"] and t_holding(tt["place_ty"], tparam) and not tt["place_ty"].startswith(("&", "*")):
                out.append(bid)
    return sorted(set(out))


def r3(ctx, facts):
    impls = [i for i in facts.impls if i["trait"] == "storage::UnprotectedStorage"]
    n = 0
    for im in impls:
        tparam = im["trait_args"][0] if im["trait_args"] else "T"
        adt = facts.adts.get(base_ty(im["self_ty"]))
        if not adt:
            ctx.ob("C19-R3", "%s" % im["self_ty"], "undetermined", "%s:%d" % (im["file"], im["line"]), "self type is not a local ADT")
            continue
        fields = {f["name"]: f["ty"] for v in adt["variants"] for f in v["fields"]}
        targs = generic_args(im["self_ty"])
        holding = {f for f, ty in fields.items() if t_holding(ty, tparam) and not ty.startswith("std::marker::PhantomData")}
        holding |= {f for f, ty in fields.items() if ty in targs and ty != tparam}
        tables = {f for f in fields if f not in holding and not fields[f].startswith("std::marker::PhantomData")}
        if "clean" in im["items"]:
            n += 1
        def direct_table_muts(b):
            out = []
            for bb, t in b.calls():
                if not t["args"]:
                    continue
                o = b.arg_origin(bb, 0)
                a0 = t["args"][0]
                if o[0] == "param" and o[1] == 1 and o[2] and o[2][0] in tables and isinstance(a0, dict) and str(a0.get("ty", "")).startswith("&mut"):
                    out.append((bb, o[2][0]))
            for sbb, si, dst, rv, line in b.stores():
                o = b.origin(dst)
                if o[0] == "param" and o[1] == 1 and o[2] and o[2][0] in tables:
                    out.append((sbb, o[2][0]))
            return out
        # sibling methods of the same impl that mutate an index table: handing them the whole `&mut self` after a destructor may have run is a
        # table mutation too (seed C19-g2: an overriding drop() destroys in place, then calls self.remove(id) to unlink)
        sib_mut = {}
        for mname2, mpath2 in im["items"].items():
            b2 = facts.body(mpath2)
            if b2 and direct_table_muts(b2):
                sib_mut[mpath2] = mname2
                sib_mut["storage::UnprotectedStorage::" + mname2] = mname2
        for mname, mpath in sorted(im["items"].items()):
            b = facts.body(mpath)
            if not b:
                continue
            maydrop = destructor_sites(b, tparam, holding)
            tablemut = []
            for bb, t in b.calls():
                cp = t["callee"].get("path") or ""
                if cp in sib_mut and t["args"] and b.arg_origin(bb, 0) == ("param", 1, ()) and \
                        base_ty(t["callee"].get("self_ty") or im["self_ty"]) == base_ty(im["self_ty"]):
                    tablemut.append((bb, "(via self.%s)" % sib_mut[cp]))
            for bb, t in b.calls():
                if not t["args"]:
                    continue
                o = b.arg_origin(bb, 0)
                a0 = t["args"][0]
                if o[0] == "param" and o[1] == 1 and o[2] and o[2][0] in tables and isinstance(a0, dict) and str(a0.get("ty", "")).startswith("&mut"):
                    tablemut.append((bb, o[2][0]))
            for sbb, si, dst, rv, line in b.stores():
                o = b.origin(dst)
                if o[0] == "param" and o[1] == 1 and o[2] and o[2][0] in tables:
                    tablemut.append((sbb, o[2][0]))
            bad = []
            for mbb, f in tablemut:
                for dbb in maydrop:
                    if mbb != dbb and mbb in b.reachable(dbb):
                        bad.append((f, b.term(mbb)["line"], b.term(dbb)["line"]))
            if not maydrop and not tablemut and mname != "clean":
                continue
            key = "%s::%s tables-before-destructors" % (base_ty(im["self_ty"]), mname)
            ctx.ob("C19-R3", key, not bad, b.loc(),
                   "" if not bad else "; ".join("index table `%s` is mutated (line %d) after a point that may run a component destructor (line %d): "
                                                "an unwinding destructor leaves the table inconsistent with the data" % x for x in sorted(set(bad))),
                   nontrivial=bool(tables and maydrop))
        ctx.note("[%s] %s: T-holding fields %s, tables %s" % (facts.config, base_ty(im["self_ty"]), sorted(holding), sorted(tables)))
    ctx.floor("C19-R3", "UnprotectedStorage impls with clean()", n, 6)


def r4(ctx, facts):
    sites = nondelegating_sites(facts, UINSERT)
    n = 0
    for b, bb, t in sites:
        c = t["callee"]
        storage_org = b.arg_origin(bb, 0)
        id_org = b.arg_origin(bb, 1)
        mask_org = mask_sibling(storage_org)
        generic = (c.get("self_ty") or "").startswith("<")
        key = "%s insert->mask.add" % b.path
        if not generic:
            ctx.ob("C19-R4", key, True, b.loc(bb), "named exception (concrete owning storage %s)" % c.get("self_ty"), nontrivial=False)
            continue
        n += 1
        # mask updates after the insert, on feasible paths
        after = b.reachable(t["target"]) if t.get("target") is not None else set()
        adds = []
        for abb in after:
            at = b.term(abb)
            if at["k"] == "call" and at["callee"].get("path") == "hibitset::BitSet::add" and b.arg_origin(abb, 1) == id_org:
                adds.append(abb)
        if not adds:
            ctx.ob("C19-R4", key, False, b.loc(bb), "no mask update with the same id follows the raw insert on any feasible path")
            continue
        for abb in adds:
            at = b.term(abb)
            uw = at.get("unwind")
            if not isinstance(uw, int):
                ctx.ob("C19-R4", key, True, b.loc(abb), "mask update cannot unwind (%s)" % uw)
                continue
            ok = False
            cleanup = b.reachable(uw, unwind=True)
            seen_drops = []
            for cbb in cleanup:
                ct = b.term(cbb)
                if ct["k"] != "drop":
                    continue
                glue, _ = facts.drop_glue(ct["place_ty"])
                for g in glue:
                    gb = facts.body(g)
                    if not gb:
                        continue
                    seen_drops.append(g)
                    for gbb, gt in gb.calls():
                        if gt["callee"].get("path") == UREMOVE:
                            # the id handed to remove must be the guard's field initialised from our id
                            ro = gb.arg_origin(gbb, 1)
                            if ro[0] == "param" and ro[1] == 1 and ro[2]:
                                fld = ro[2][-1]
                                po = b.origin({"local": ct["place"]["local"], "proj": []})
                                if po[0] == "agg":
                                    rv = b.blocks[po[1]]["stmts"][po[2]]["rv"]
                                    adt = facts.adts.get(rv.get("adt"))
                                    if adt:
                                        names = [f["name"] for f in adt["variants"][0]["fields"]]
                                        if fld in names and b.operand_origin(rv["ops"][names.index(fld)]) == id_org:
                                            ok = True
            # the guard must be disarmed on the normal path, otherwise the value is always removed again
            ctx.ob("C19-R4", key, ok, b.loc(abb),
                   "" if ok else "the unwind edge of the mask update reaches no drop guard that calls UnprotectedStorage::remove with the inserted id "
                   "(cleanup blocks %s, drop glue seen %s)" % (sorted(cleanup), seen_drops))
    ctx.floor("C19-R4", "generic raw insert sites", n, 1)


def r5(ctx, facts):
    im = [i for i in facts.impls if i["trait"] == "std::ops::Drop" and base_ty(i["self_ty"]) == "storage::MaskedStorage"]
    ctx.anchor("C19-R5", "impl Drop for MaskedStorage", im)
    for i in im:
        b = facts.body(i["items"].get("drop", ""))
        if not b:
            ctx.ob("C19-R5", "MaskedStorage drop body", False, "", "no body")
            continue
        clears = [bb for bb, t in b.calls() if any(tb.name == "clear" and tb.self_ty and base_ty(tb.self_ty) == "storage::MaskedStorage"
                                                  for tb in facts.targets(t["callee"]))]
        cleans_direct = [bb for bb, t in b.calls() if t["callee"].get("path") == CLEAN]
        ok, wit = b.must_pass(0, clears)
        if cleans_direct:
            ok = False
        ctx.ob("C19-R5", "Drop for MaskedStorage -> clear()", ok, b.loc(),
               "" if ok else ("teardown calls clean() directly instead of the panic-safe clear()" if cleans_direct else
                              "teardown does not reach clear() on path %s" % b.fmt_path(wit)))


def may_destroy_set(facts):
    """bodies that (transitively, through resolved crate-local calls) contain a destructor-running site"""
    prim = {b.path for b in facts.bodies if destructor_sites(b)}
    md = set(prim)
    changed = True
    while changed:
        changed = False
        for b in facts.bodies:
            if b.path in md:
                continue
            for bb, t in b.calls():
                c = t["callee"]
                tg = c.get("resolved") if c.get("resolved") and c.get("resolved") != "<virtual>" else (c.get("path") if not c.get("trait") else None)
                if tg in md:
                    md.add(b.path)
                    changed = True
                    break
    return prim, md


def r6(ctx, facts):
    prim, md = may_destroy_set(facts)
    nsites = 0
    for b in facts.bodies:
        sites = set(destructor_sites(b))
        for bb, t in b.calls():
            c = t["callee"]
            tg = c.get("resolved") if c.get("resolved") and c.get("resolved") != "<virtual>" else (c.get("path") if not c.get("trait") else None)
            if tg in md:
                sites.add(bb)
        for sbb in sorted(sites):
            t = b.term(sbb)
            uw = t.get("unwind")
            if not isinstance(uw, int):
                continue
            nsites += 1
            cleanup = b.reachable(uw, unwind=True)
            reentered = []
            for cbb in cleanup:
                ct = b.term(cbb)
                entry = []
                if ct["k"] == "drop":
                    glue, _ = facts.drop_glue(ct["place_ty"])
                    entry = [facts.body(g) for g in glue if facts.body(g)]
                elif ct["k"] == "call":
                    entry = [x for x in facts.targets(ct["callee"]) if not ct["callee"].get("trait")]
                if not entry:
                    continue
                seen = facts.reach(entry, edge_filter=lambda bd, xbb, xt: not xt["callee"].get("trait") or xt["callee"].get("resolved"))
                for pth in seen:
                    if pth in prim:
                        reentered.append((cbb, pth, facts.chain(seen, pth)))
            if not reentered:
                continue
            # accepted idiom: in the re-entered body the cursor that selects the slot is advanced before the destructor call
            for cbb, pth, chain in reentered:
                rb = facts.body(pth)
                ok = rb is not None and cursor_advanced_before_destroy(rb)
                ctx.ob("C19-R6", "%s unwind of %s re-enters %s" % (b.path, t.get("callee", {}).get("path", "drop"), pth), ok, b.loc(sbb),
                       "" if ok else "if a component destructor panics here, the cleanup path (%s, via %s) runs destructor code again without having "
                       "advanced past the slot that panicked: that slot is destroyed twice" % (b.loc(cbb), chain))
    ctx.ob("C19-R6", "destructor-running call sites with an unwind edge examined", nsites > 0, "", "%d sites" % nsites, nontrivial=False)


def cursor_advanced_before_destroy(rb):
    """every primitive destructor site in rb is preceded, after the read of the self field that selects its slot, by a store to that field"""
    sites = destructor_sites(rb)
    if not sites:
        return False
    for s in sites:
        t = rb.term(s)
        if t["k"] != "call" or not t["args"]:
            return False
        deps = rb.deps(rb.arg_origin(s, 0))
        cursor = {d[2][0] for d in deps if d[0] == "param" and d[1] == 1 and len(d[2]) == 1 and rb.d["locals"] and True}
        # keep integer-typed cursor candidates: fields read as call arguments of type usize/u32
        sel = []
        for d in deps:
            if d[0] == "call":
                ct = rb.term(d[1])
                for a in ct["args"]:
                    ao = rb.operand_origin(a)
                    if ao[0] == "param" and ao[1] == 1 and len(ao[2]) == 1 and isinstance(a, dict) and a.get("ty") in ("usize", "u32", "u64"):
                        sel.append((d[1], ao[2][0]))
        if not sel:
            return False
        for selbb, fld in sel:
            stores = [sbb for sbb, si, dst, rv, line in rb.stores() if rb.origin(dst) == ("param", 1, (fld,))]
            ok, _ = rb.must_pass(selbb, stores, goals=[s]) if stores else (False, None)
            if not ok:
                return False
    return True
