"""C10 - concurrent creation, deletion and lazy queuing via shared access lose nothing (clause: atomic discipline)."""
import re
from ..alloc import ALLOC, CACHE, AllocModel
from ..core import base_ty, strip_ref
from . import _alloc_rules, c12

ARMED = True
TECHNIQUE = "call-graph effect analysis of the shared-access paths + value-origin rules on the CAS loops over MIR (clause; interleavings are not explored)"
EXPLANATION = (
    "Decides the atomic discipline that any linearizability argument for the shared paths rests on, not the interleaving semantics. R1 (shared "
    "paths mutate only atomically): from the shared-reference entry points (EntitiesRes::{create, create_iter->next, build_entity, delete, is_alive, "
    "entity}, the entities join impls, LazyUpdate's &self API) the call graph reaches no `&mut self` method of the allocator or its free list; every "
    "std atomic operation reached is load / compare_exchange(_weak) / fetch_update (no store, swap, fetch_add/sub: an unconditional RMW would wrap), "
    "every AtomicBitSet operation is add_atomic / contains; the allocator's fields contain no Cell / UnsafeCell / lock other than atomics; no unsafe "
    "block on these paths except NonZero construction. R2 (well-formed CAS loops): in every body that calls compare_exchange*, the `new` operand is "
    "current +/- 1 of the same `current` operand, `current` is only ever assigned from a load of the same atomic or from the Err payload of that CAS, "
    "and every Some the function returns carries the Ok payload of the CAS. R3 (no check-then-act on indices): the slot read by the deferred pop is "
    "indexed by the value the RMW returned (never by a separate load), and the index of a deferred allocation originates in that pop or in the "
    "counter's RMW result. R4: the deferred kill only sets a bit: under &self the only state-changing call is AtomicBitSet::add_atomic on `killed`, "
    "guarded by is_alive (C02-R1). W9: the allocator is neither reachable (private field) nor nameable (private type) from outside the crate, so user code under shared access can only use the entry points analysed here. R5: lazy queuing under &self only pushes onto the lock-free queue (C09-R3)."
)
NOT_DECIDED = ("everything about interleavings and memory orderings (Relaxed is used; whether that suffices is not decided); linearizability of the "
               "create/delete history; crossbeam's and hibitset's internal atomics")
TRUSTED = ["rustc nightly MIR", "std atomics / hibitset AtomicBitSet / crossbeam SegQueue are linearizable", "sa/ analyses"]
LEVEL_TEXT = ("Clause only: the structural preconditions of lock-free correctness are decided on all paths reachable under shared access (only "
              "single atomic RMWs change allocator words, CAS loops are well formed, indices come from RMW results, not from separate loads). No "
              "interleaving is explored and weak-memory behaviour is NOT decided by this family.")

OK_ATOMIC = {"load", "compare_exchange", "compare_exchange_weak", "fetch_update", "new", "default", "get_mut", "into_inner", "fmt"}
OK_ABITSET = {"add_atomic", "contains", "iter", "is_empty", "layer0", "layer1", "layer2", "layer3", "new", "default", "fmt"}


def configs(tier):
    return ["A", "N"] if tier == "quick" else ["A", "F", "N", "FN"]   # N: three independent seeds (C01-g2, C10-g2, C17-g2) hid a defect in a cfg(not(parallel)) twin


def run(ctx):
    for r, t in [("C10-R1", "shared paths mutate allocator state only by single atomic RMWs"), ("C10-R2", "CAS loops are well formed"),
                 ("C10-R3", "indices originate in RMW results, never in a separate load"), ("C10-R4", "the deferred kill only sets a bit"),
                 ("C10-R5", "lazy queuing under shared access only pushes onto the lock-free queue")]:
        ctx.rule(r, t)
    for cfg in configs(ctx.tier):
        facts = ctx.xfacts(cfg)
        model = AllocModel(facts)
        r1(ctx, facts, model)
        r2(ctx, facts, model)
        r3(ctx, facts, model)
        r4(ctx, facts, model)
        r5(ctx, facts)
    from .. import witness
    witness.run_set(ctx, "C10", ["w9_allocator_field_private", "w9_allocator_type_private"])


def shared_roots(facts):
    roots = []
    for b in facts.bodies:
        st = base_ty(b.self_ty or "")
        first = b.ltype.get(1, "")
        if st == "world::entity::EntitiesRes" and not b.trait_item and c12.is_shared_ref(first) and b.kind != "Closure" and b.name not in ("fmt",):
            roots.append(b)
        elif st == "world::entity::EntitiesRes" and b.trait_item and b.trait_item.split("::")[-2] in ("Join", "LendJoin", "ParJoin"):
            roots.append(b)
        elif st == "world::entity::CreateIterAtomic" and b.name == "next":
            roots.append(b)
    return roots


def r1(ctx, facts, model):
    roots = shared_roots(facts)
    ctx.floor("C10-R1", "shared-reference entry points of the entities resource", len(roots), 8)
    seen = facts.reach(roots, edge_filter=lambda bd, bb, t: not t["callee"].get("trait") or bool(t["callee"].get("resolved")) or
                       t["callee"].get("path", "").startswith(("join::", "world::")))
    excl = []
    bad_atomic = []
    unsafe_sites = []
    for p in seen:
        for b in facts.by_path[p]:
            if b.self_ty in (ALLOC, CACHE) and b.argc >= 1 and b.ltype[1].startswith("&mut"):
                excl.append(facts.chain(seen, p))
            for bb, t in b.calls():
                c = t["callee"]
                pth = c.get("path", "")
                st = c.get("self_ty") or ""
                if ("sync::atomic::Atomic" in pth or "sync::atomic::Atomic" in st) and c.get("crate") != "specs":
                    # (crate-local methods of a private new-type around an atomic are bodies of their own and are walked like any other)
                    if c.get("name") not in OK_ATOMIC:
                        bad_atomic.append("%s at %s" % (pth, b.loc(bb)))
                if "AtomicBitSet" in pth or "AtomicBitSet" in st:
                    if c.get("name") not in OK_ABITSET:
                        bad_atomic.append("%s at %s" % (pth, b.loc(bb)))
                if "UnsafeCell" in pth or "cell::Cell" in pth or "RefCell" in pth or "Mutex" in pth or "RwLock" in pth:
                    unsafe_sites.append("%s at %s" % (pth, b.loc(bb)))
    ctx.ob("C10-R1", "no exclusive allocator method is reachable under shared access", not excl, "", "" if not excl else "; ".join(excl[:3]))
    ctx.ob("C10-R1", "only load / CAS / add_atomic / contains touch atomics under shared access", not bad_atomic, "",
           "" if not bad_atomic else "non-CAS atomic operations reachable from a shared entry point: %s (a store or unconditional RMW loses or duplicates concurrent requests)" % bad_atomic)
    ctx.ob("C10-R1", "no interior mutability other than atomics on the shared paths", not unsafe_sites, "", "" if not unsafe_sites else str(unsafe_sites))
    for name in (ALLOC, CACHE):
        adt = facts.adts.get(name)
        ctx.anchor("C10-R1", name, adt)
        if adt:
            bad = [f for v in adt["variants"] for f in v["fields"] if any(x in f["ty"] for x in ("Cell", "Mutex", "RwLock", "*mut", "*const"))]
            ctx.ob("C10-R1", "%s holds no cell / lock / raw pointer" % name, not bad, "", "" if not bad else str(bad))
    ctx.note("[%s] %d bodies reachable under shared access" % (facts.config, len(seen)))


def r2(ctx, facts, model):
    n = 0
    for b in facts.bodies:
        cas = [(bb, t) for bb, t in b.calls() if t["callee"].get("name") in ("compare_exchange", "compare_exchange_weak") and
               "atomic" in (t["callee"].get("path", "") + (t["callee"].get("self_ty") or ""))]
        for bb, t in cas:
            n += 1
            key = "%s CAS" % b.path
            atom = b.arg_origin(bb, 0)
            cur = b.arg_origin(bb, 1)
            new = b.arg_origin(bb, 2)
            ok_new = new[0] == "op" and new[1] in ("Add", "Sub", "AddWithOverflow", "SubWithOverflow", "AddUnchecked", "SubUnchecked") and \
                cur in new[2] and any(x[0] == "const" and x[1].split("_")[0].strip() in ("1", "const 1") for x in new[2])
            if not ok_new and new[0] == "call":
                # the same step written with a std helper: checked_/wrapping_/saturating_ add|sub (current, 1), possibly unwrapped by `?`
                nc = b.term(new[1])["callee"]
                one = b.arg_origin(new[1], 1) if len(b.term(new[1])["args"]) > 1 else None
                ok_new = bool(re.search(r"::(checked|wrapping|saturating|strict)_(add|sub)$", nc.get("path", ""))) and b.arg_origin(new[1], 0) == cur and \
                    one is not None and one[0] == "const" and one[1].split("_")[0].strip() in ("1", "const 1")
            if not ok_new and new[0] == "call":
                nt = b.term(new[1])
                ncal = nt["callee"]
                by_param = ("indirect_local" in ncal or "indirect" in ncal or
                            (ncal.get("name") in ("call", "call_mut", "call_once") and (ncal.get("trait") or "").startswith("std::ops::Fn")))
                if by_param and any(b.operand_origin(a) == cur or cur in b.deps(b.operand_origin(a)) for a in nt["args"]):
                    # the step is a closure / fn the caller supplies and it is applied to the expected value: decided at the callers that are
                    # RMW helpers themselves (where it is inlined); here only "new = step(current)" can be said
                    ok_new = "undetermined"
            ctx.ob("C10-R2", key + ": new = current +/- 1 of the same current", ok_new, b.loc(bb),
                   "" if ok_new else "the value installed by the CAS is not computed from the expected value it compares against (new=%r, current=%r)" % (new, cur))
            # current: only from load(atom) or the Err payload
            srcs = cur[2] if cur[0] == "phi" else (cur,)
            bad = []
            for s_ in srcs:
                if s_[0] == "call" and s_[1] == bb and s_[2][:1] == ("as Err",):
                    continue
                if s_[0] == "call" and b.term(s_[1])["callee"].get("name") == "load" and b.arg_origin(s_[1], 0) == atom:
                    continue
                bad.append(s_)
            okc = not bad and cur[0] in ("phi", "call")
            ctx.ob("C10-R2", key + ": expected value comes from a load of the same atomic or the failed CAS", okc, b.loc(bb),
                   "" if okc else "the CAS's expected value has another source %r" % bad)
            # returns
            okr = True
            for d in b.defs().get(0, []):
                if d[0] == "stmt" and d[4]["k"] == "aggregate" and d[4].get("variant") == "Some":
                    po = b.operand_origin(d[4]["ops"][0])
                    if not (po[0] == "call" and po[1] == bb and po[2][:1] == ("as Ok",)):
                        okr = False
            ctx.ob("C10-R2", key + ": returns only the value the successful CAS saw", okr, b.loc(bb),
                   "" if okr else "the function returns something other than the Ok payload of the CAS (a stale read)")
    fu = sum(1 for b in facts.bodies for bb, t in b.calls() if t["callee"].get("name") == "fetch_update" and "atomic" in (t["callee"].get("path", "") + (t["callee"].get("self_ty") or "")))
    ctx.note("[%s] %d CAS sites, %d fetch_update sites (a fetch_update is a well-formed CAS loop by construction)" % (facts.config, n, fu))
    ctx.floor("C10-R2", "checked RMW sites (CAS loops + fetch_update)", n + fu, 1)   # two loops today; one when both are instances of a shared parameterised helper


def r3(ctx, facts, model):
    writers = _alloc_rules.atomic_writers(facts)
    pops = [b for b in facts.bodies if b.self_ty == CACHE and b.argc == 1 and c12.is_shared_ref(b.ltype[1]) and "Option<u32>" in b.ltype[0].replace(" ", "")]
    ctx.floor("C10-R3", "deferred (shared-access) pop methods of the free list", len(pops), 1)
    for b in pops:
        def recv(bb):
            # `self.cache.get(i)` reaches the slice through Vec's Deref: look through it (benign C01-s1 / C02-s1: checked slot read + expect)
            o = b.arg_origin(bb, 0)
            if o[0] == "call" and b.term(o[1])["callee"].get("name") in ("deref", "deref_mut", "as_slice", "as_mut_slice", "borrow", "as_ref") and b.term(o[1])["args"]:
                o = b.arg_origin(o[1], 0)
            return model.field_of(b, o)
        idx = [(bb, t) for bb, t in b.calls() if t["callee"].get("name") in ("index", "get", "get_unchecked", "index_mut") and t["args"]
               and recv(bb) == ("cache",)]
        ok = bool(idx)
        why = "" if ok else "the deferred pop does not read a slot of the free list"
        for bb, t in idx:
            deps = b.deps(b.arg_origin(bb, 1))
            from_rmw = any(d[0] == "call" and (b.term(d[1])["callee"].get("path") in writers) and d[2][:1] == ("as Some",)
                           and model.field_of(b, b.arg_origin(d[1], writers[b.term(d[1])["callee"]["path"]])) == ("len",) for d in deps)
            stale = [b.loc(d[1]) for d in deps if d[0] == "call" and b.term(d[1])["callee"].get("name") == "load"]
            if not from_rmw or stale:
                ok = False
                why = "the slot index is not derived (only) from the value the atomic RMW on `len` returned (from the RMW: %s, separate loads: %s)" % (from_rmw, stale)
        loads = [b.loc(bb) for bb, t in b.calls() if t["callee"].get("name") == "load"]
        if loads:
            ok, why = False, "a separate load at %s: check-then-act on the free-list length" % loads
        ctx.ob("C10-R3", "%s reads the slot it won" % b.path, ok, b.loc(), why)
    for b in model.bodies:
        if not model.calls_on_field(b, ("raised",), {"add_atomic"}, "AtomicBitSet"):
            continue
        for bb, t in model.calls_on_field(b, ("raised",), {"add_atomic"}, "AtomicBitSet"):
            deps = b.deps(b.arg_origin(bb, 1))
            bad = [b.loc(d[1]) for d in deps if d[0] == "call" and b.term(d[1])["callee"].get("name") == "load"]
            src = any(d[0] == "call" and any(x.self_ty == CACHE for x in facts.targets(b.term(d[1])["callee"])) for d in deps)
            ctx.ob("C10-R3", "%s: index of a deferred allocation comes from the pop / counter RMW" % b.path, src and not bad, b.loc(bb),
                   "" if src and not bad else "index derives from a plain load (%s) or not from the free-list pop (%s)" % (bad, src))


def r4(ctx, facts, model):
    n = 0
    for b in model.bodies:
        if b.argc < 2 or not c12.is_shared_ref(b.ltype[1]) or not b.ltype[0].startswith("std::result::Result") or b.trait_item:
            continue
        if not any(strip_ref(b.ltype[i]) == "world::entity::Entity" for i in range(2, b.argc + 1)):
            continue
        n += 1
        effects = []
        for bb, t in b.calls():
            c = t["callee"]
            if t["args"] and model.field_of(b, b.arg_origin(bb, 0)) not in (None, ()):
                effects.append((model.field_of(b, b.arg_origin(bb, 0)), c.get("name")))
        okf = all(f == ("killed",) and nm == "add_atomic" or nm in ("contains", "get", "index", "len") for f, nm in effects)
        ctx.ob("C10-R4", "%s only sets a pending-kill bit" % b.path, okf and bool(effects), b.loc(),
               "" if okf and effects else "under shared access the deferred kill touches %s" % effects)
    ctx.floor("C10-R4", "deferred kill bodies", n, 1)


def r5(ctx, facts):
    from . import c09
    apis = [b for b in c09.queuing_apis(facts) if base_ty(b.self_ty or "") == "world::lazy::LazyUpdate"]
    for b in apis:
        shared = c12.is_shared_ref(b.ltype.get(1, ""))
        ctx.ob("C10-R5", "%s takes &self and only pushes" % b.path, shared, b.loc(), "" if shared else "queuing API requires exclusive access")
    qa = facts.adts.get("world::lazy::Queue")
    ctx.anchor("C10-R5", "world::lazy::Queue", qa)
    if qa:
        ok = any("crossbeam_queue::SegQueue" in f["ty"] for v in qa["variants"] for f in v["fields"])
        ctx.ob("C10-R5", "the lazy queue is crossbeam's lock-free SegQueue", ok, "", "" if ok else "queue type is %s" % qa)
