"""C07 - parallel join delivers the same items as sequential join, each exactly once (clause)."""
from ..core import base_ty
from ..joins import abstraction, join_impls, method_body, norm
from .. import witness

ARMED = True
TECHNIQUE = "trait-bound queries on the impl tables, value-origin of the producer split over MIR, Join/ParJoin sibling agreement, compile-fail witnesses"
EXPLANATION = (
    "R1 (bounds that make mutable sharing sound): every ParJoin impl whose self type is `&mut` of a specs storage carries `DistinctStorage` and `Sync` "
    "on the component storage; the unsafe Send/Sync impls of the shared-handle types carry DistinctStorage; the set of DistinctStorage implementors "
    "and the set of Tracked implementors are disjoint; for every DistinctStorage type, shared_get_mut hands no `&mut` rooted in self to any call "
    "that does not depend on the index parameter (no hidden shared state is mutated). R2 (split): in the parallel producer's split() exactly one BitProducer::split consumes self.keys; the first "
    "returned producer is built from component 0 and the second - unconditionally, through Option::map only - from component 1 of that split, both "
    "with self.values; no producer or key set is cloned or filtered; fold_with consumes keys once and asks J::get with the iterator's item; "
    "drive_unindexed opens the join once and hands rayon a producer whose keys are BitSetLike::iter of that opened mask and nothing else (no hand-assembled, "
    "pre-advanced or filtered iterator state between open() and the producer) with those opened values. R3 (same items): for every type with both Join and ParJoin the masks are "
    "identical and, where the Value types agree, open()/get() agree on their callee abstraction. W1/W2/W8: par_join / join over tracked storages and "
    "sending the shared item of a tracked storage to another thread do not compile; the VecStorage twins do."
)
NOT_DECIDED = ("that hibitset's BitProducer::split partitions the index space; that rayon's bridge joins all workers before returning and calls split/fold "
               "as documented; visibility of the workers' writes (rayon's join semantics)")
TRUSTED = ["rustc nightly trait solving and MIR", "hibitset BitProducer", "rayon", "sa/ analyses"]
LEVEL_TEXT = ("Clause only: what specs contributes to a parallel join - the bounds without which mutable sharing is unsound, that both halves of every "
              "split are handed on exactly once with the same values, and that the parallel impls agree with the sequential ones - is decided by "
              "type-level queries, compile-fail witnesses and value-origin over the producer. Partitioning and scheduling are hibitset's and rayon's.")

PJ = "join::par_join::ParJoin"


def configs(tier):
    return ["A", "F"]   # feature-gated impls (storage-event-control) can widen the marker traits: both tiers look at both builds


def run(ctx):
    for r, t in [("C07-R1", "bounds that make mutable sharing sound"), ("C07-R2", "split hands both halves on exactly once with the same values"),
                 ("C07-R3", "parallel impls agree with the sequential ones")]:
        ctx.rule(r, t)
    for cfg in configs(ctx.tier):
        facts = ctx.xfacts(cfg)
        r1(ctx, facts)
        r2(ctx, facts)
        r3(ctx, facts)
    witness.run_set(ctx, "C07", ["w1_par_join_flagged_mut", "w1_par_join_deref_flagged_mut", "w2_join_deref_flagged_mut",
                                 "w8_send_shared_item_flagged", "w8_par_join_restricted_flagged"])


def has_pred(im, needle):
    return any(needle in p for p in im["preds"])


def r1(ctx, facts):
    n = 0
    for im in facts.impls_of(PJ):
        st = im["self_ty"]
        if st.startswith("&") and " mut " in st[:12] and base_ty(st).startswith("storage::"):
            n += 1
            for needle in ("storage::DistinctStorage", "std::marker::Sync"):
                ok = has_pred(im, needle)
                ctx.ob("C07-R1", "ParJoin for %s requires %s" % (st, needle.split("::")[-1]), ok, "%s:%d" % (im["file"], im["line"]),
                       "" if ok else "the mutable parallel join no longer requires %s on the component storage: storages whose mutable access touches "
                       "shared state (tracked storages) could be mutated from several workers at once" % needle)
    ctx.floor("C07-R1", "mutable ParJoin impls over storages", n, 2)
    m = 0
    for im in facts.impls:
        if im["trait"] in ("std::marker::Send", "std::marker::Sync") and base_ty(im["self_ty"]).startswith("storage::restrict::"):
            m += 1
            ok = has_pred(im, "storage::DistinctStorage")
            ctx.ob("C07-R1", "unsafe %s for %s requires DistinctStorage" % (im["trait"].split("::")[-1], base_ty(im["self_ty"])), ok,
                   "%s:%d" % (im["file"], im["line"]), "" if ok else "shared-handle type can cross threads without DistinctStorage")
    ctx.floor("C07-R1", "unsafe Send/Sync impls of shared-handle types", m, 3)
    distinct = {base_ty(i["self_ty"]) for i in facts.impls_of("storage::DistinctStorage")}
    tracked = {base_ty(i["self_ty"]) for i in facts.impls_of("storage::track::Tracked")}
    both = distinct & tracked
    ctx.ob("C07-R1", "no tracked storage is a DistinctStorage", not both and bool(distinct) and bool(tracked), "",
           "" if not both else "%s implement both Tracked and DistinctStorage: their shared event channel would be written from several workers" % sorted(both))
    for im in facts.impls_of("storage::SharedGetMutStorage"):
        if base_ty(im["self_ty"]) not in distinct:
            continue
        b = facts.body(im["items"].get("shared_get_mut", ""))
        if not b:
            continue
        bad = []
        for bb, t in b.calls():
            for a in t["args"]:
                rs = b.roots(b.operand_origin(a)) if isinstance(a, dict) and str(a.get("ty", "")).startswith("&mut") else set()
                # a `&mut` to the slot selected by the index parameter is what the method is for; one that does not depend on the index is shared state
                if any(r[0] == "param" and r[1] == 1 for r in rs) and not any(r[0] == "param" and r[1] == 2 for r in rs):
                    bad.append("%s at %s" % (t["callee"].get("path"), b.loc(bb)))
        ctx.ob("C07-R1", "%s::shared_get_mut mutates no shared state" % base_ty(im["self_ty"]), not bad, b.loc(),
               "" if not bad else "a DistinctStorage hands `&mut` rooted in self to %s inside shared_get_mut: concurrent calls with distinct indices would race" % bad)


PRODUCER = "join::par_join::JoinProducer"


def field_idx(facts, adt, name):
    a = facts.adts.get(adt)
    if not a:
        return None
    for i, f in enumerate(a["variants"][0]["fields"]):
        if f["name"] == name:
            return i
    return None


def comp_origins(b, *path):
    """origins of a component of the returned value at every return; path elements: int (tuple / struct position) or ('as', Variant)"""
    proj = []
    for e in path:
        if isinstance(e, tuple):
            proj.append({"downcast": e[1]})
        else:
            proj.append({"field": str(e), "idx": e, "of": ""})
    from ..core import INFEASIBLE
    out = [b.origin({"local": 0, "proj": proj}, at=b.end(r)) for r in b.returns() if r in b.live_blocks()]
    return [o for o in out if o != INFEASIBLE]


def r2(ctx, facts):
    ki, vi = field_idx(facts, PRODUCER, "keys"), field_idx(facts, PRODUCER, "values")
    ctx.anchor("C07-R2", "struct JoinProducer { keys, values }", ki is not None and vi is not None)
    if ki is None or vi is None:
        return
    sp = [b for b in facts.bodies if b.name == "split" and b.trait_item and "UnindexedProducer" in b.trait_item and "JoinProducer" in (b.self_ty or "")]
    ctx.anchor("C07-R2", "JoinProducer::split", sp)
    for b in sp:
        splits = [bb for bb, t in b.real_calls() if t["callee"].get("name") == "split" and "BitProducer" in (t["callee"].get("path", "") + (t["callee"].get("self_ty") or ""))]
        ok = len({b.site(x) for x in splits}) == 1 and all(b.arg_origin(x, 0) == ("param", 1, ("keys",)) for x in splits)
        ctx.ob("C07-R2", "split() splits self.keys exactly once", ok, b.loc(), "" if ok else "%d BitProducer::split calls / wrong receiver" % len(splits))
        if not ok:
            continue
        sb = splits[0]
        clones = [b.loc(bb) for bb, t in b.real_calls() if t["callee"].get("name") in ("clone", "filter", "take", "and_then", "xor", "zip", "or")]
        # the two halves, by the value that is returned: (JoinProducer { keys: split.0, values: self.values },
        #                                                 Some(JoinProducer { keys: payload of split.1, values: self.values }) | None)
        vals = ("param", 1, ("values",))
        k0, v0 = comp_origins(b, 0, ki), comp_origins(b, 0, vi)
        first_ok = bool(k0) and all(x == ("call", sb, ("0",)) for x in k0) and all(x == vals for x in v0)
        k1, v1 = comp_origins(b, 1, ("as", "Some"), 0, ki), comp_origins(b, 1, ("as", "Some"), 0, vi)
        second_ok = bool(k1) and all(x == ("call", sb, ("1", "as Some", "0")) for x in k1) and all(x == vals for x in v1)
        # the variant of the second component is decided by the variant of split.1 and nothing else
        ves = b.variant_edges(lambda so: so == ("call", sb, ("1",)))
        some_e = {ve["edges"]["Some"] for ve in ves if "Some" in ve["edges"]}
        none_e = {ve["edges"]["None"] for ve in ves if "None" in ve["edges"]}
        built = {"Some": [], "None": []}
        opt_ty = None
        for bid, blk in b.blocks.items():
            for st in blk["stmts"]:
                rv = st["rv"]
                if rv["k"] == "aggregate" and rv.get("variant") in built and "option::Option" in rv.get("adt", "") and not st["dst"]["proj"]:
                    # only Options that can be the returned second component
                    if any(d == ("agg", bid, blk["stmts"].index(st), ()) or (d[0] == "agg" and d[1] == bid) for o in comp_origins(b, 1) for d in ([o] if o[0] != "phi" else o[2])):
                        built[rv["variant"]].append(bid)
        uncond = bool(some_e) and bool(none_e) and bool(built["Some"]) and \
            all(x not in b.reachable(0, removed=some_e) for x in built["Some"]) and all(x not in b.reachable(0, removed=none_e) for x in built["None"])
        ctx.ob("C07-R2", "first half -> first producer (same values)", first_ok, b.loc(sb),
               "" if first_ok else "the first producer is not built from component 0 of the split with self.values (keys %r, values %r)" % (k0, v0))
        ctx.ob("C07-R2", "second half -> second producer, unconditionally (same values)", second_ok and uncond and not clones, b.loc(sb),
               "" if second_ok and uncond and not clones else "the second half of the key space can be dropped, filtered, cloned or paired with other values "
               "(second producer = payload of split.1 with self.values: %s (keys %r, values %r); Some/None decided by split.1 alone: %s; clone/filter-like calls: %s): "
               "indices would be lost or delivered twice" % (second_ok, k1, v1, uncond, clones))
    fw = [b for b in facts.bodies if b.name == "fold_with" and "JoinProducer" in (b.self_ty or "")]
    ctx.anchor("C07-R2", "JoinProducer::fold_with", fw)
    for b in fw:
        gets = [(bb, t) for bb, t in b.real_calls() if norm(t["callee"].get("path")) == "JOIN::get"]
        cons = [bb for bb, t in b.real_calls() if t["callee"].get("name") == "consume_iter"]
        ok = bool(gets) and bool(cons) and b.must_pass(0, cons)[0]
        why = "" if ok else "fold_with does not hand an iterator to the folder on every path / never calls J::get"
        for bb, t in gets:
            io, vo = b.arg_origin(bb, 1), b.arg_origin(bb, 0)
            item = io[0] == "call" and io[2][:2] == ("as Some", "0") and b.term(io[1])["callee"].get("path") == "std::iter::Iterator::next" and \
                any(r[0] == "param" and r[1] == 1 and r[2][:1] == ("keys",) for r in b.roots(b.arg_origin(io[1], 0)))
            if not item or vo != ("param", 1, ("values",)):
                ok = False
                why = "J::get is asked for %r with values %r: expected an item of the iterator over self.keys and self.values" % (io, vo)
        # what the folder consumes is the mapped key iterator (and nothing else)
        for c in cons:
            adap = [d for d in b.deps(b.arg_origin(c, 1)) if d[0] == "call" and b.term(d[1])["callee"].get("trait") == "std::iter::Iterator"
                    and b.term(d[1])["callee"].get("name") not in ("map", "into_iter", "by_ref")]
            if adap:
                ok = False
                why = "the key iterator handed to the folder goes through %s: keys would be skipped, repeated or reordered" % sorted({b.term(d[1])["callee"]["name"] for d in adap})
            if not any(r[0] == "param" and r[1] == 1 and r[2][:1] == ("keys",) for r in b.roots(b.arg_origin(c, 1))):
                ok = False
                why = "the iterator handed to the folder is not derived from self.keys"
        ctx.ob("C07-R2", "fold_with feeds every key of its part to J::get with its own values", ok, b.loc(), why)
    du = [b for b in facts.bodies if b.name == "drive_unindexed" and "JoinParIter" in (b.self_ty or "")]
    ctx.anchor("C07-R2", "JoinParIter::drive_unindexed", du)
    for b in du:
        opens = [bb for bb, t in b.real_calls() if norm(t["callee"].get("path")) == "JOIN::open"]
        bridges = [bb for bb, t in b.real_calls() if t["callee"].get("name") == "bridge_unindexed"]
        ok = len({b.site(x) for x in opens}) == 1 and bool(bridges)
        why = "" if ok else "%d open() calls, %d bridge_unindexed calls" % (len(opens), len(bridges))
        for br in bridges:
            po = b.arg_origin(br, 0)
            if po[0] != "agg" or b.blocks[po[1]]["stmts"][po[2]]["rv"].get("adt") != PRODUCER:
                ok, why = False, "the producer handed to rayon is not a JoinProducer built here (%r)" % (po,)
                continue
            rv = b.blocks[po[1]]["stmts"][po[2]]["rv"]
            ko, vo = b.operand_origin(rv["ops"][ki], at=(po[1], po[2])), b.operand_origin(rv["ops"][vi], at=(po[1], po[2]))
            if not (all(b.depends_on_call(ko, ob, ("0",)) for ob in opens) and all(b.depends_on_call(vo, ob, ("1",)) for ob in opens)):
                ok, why = False, "the producer's keys / values are not the (mask, values) of the single open() (keys %r, values %r)" % (ko, vo)
                continue
            # ... and the key producer starts from the mask's own *full* iterator: between open() and the producer the keys pass through
            # BitSetLike::iter (and nothing else).  A hand-assembled or pre-advanced iterator state (BitIter::new with computed layer
            # masks / prefixes, skip/filter adaptors, a helper doing that) is where "every index of the intersection" is lost.
            extra = sorted({(b.term(d[1])["callee"].get("path") or "?") for d in b.deps(ko) if d[0] == "call" and not b.term(d[1]).get("ghost")
                            and norm(b.term(d[1])["callee"].get("path")) != "JOIN::open"
                            and not (b.term(d[1])["callee"].get("name") in ("iter", "into_iter") and "BitSetLike" in (b.term(d[1])["callee"].get("trait") or b.term(d[1])["callee"].get("path") or ""))
                            and b.term(d[1])["callee"].get("name") not in ("deref", "borrow", "as_ref", "clone")})
            iters = [d for d in b.deps(ko) if d[0] == "call" and b.term(d[1])["callee"].get("name") in ("iter", "into_iter")]
            if extra or not iters:
                ok, why = False, ("the key producer is not started from the mask's own full iterator (BitSetLike::iter of the opened mask): its keys also "
                                  "depend on %s - indices of the intersection can be skipped" % (extra or "no iter() call at all"))
        ctx.ob("C07-R2", "drive_unindexed opens once and produces from that mask and those values", ok, b.loc(), why)


def r3(ctx, facts):
    by = join_impls(facts)
    n = 0
    for st, m in sorted(by.items()):
        if "Join" in m and "ParJoin" in m:
            n += 1
            a, p = m["Join"], m["ParJoin"]
            ok = norm(a["assoc"].get("Mask")) == norm(p["assoc"].get("Mask"))
            ctx.ob("C07-R3", "%s: Join and ParJoin use the same mask" % st, ok, "%s:%d" % (p["file"], p["line"]),
                   "" if ok else "sequential mask %s vs parallel mask %s" % (a["assoc"].get("Mask"), p["assoc"].get("Mask")))
            if norm(a["assoc"].get("Value")) == norm(p["assoc"].get("Value")):
                for meth in ("open", "get"):
                    x, y = abstraction(facts, method_body(facts, a, meth)), abstraction(facts, method_body(facts, p, meth))
                    ctx.ob("C07-R3", "%s: Join::%s and ParJoin::%s agree" % (st, meth, meth), x == y, "",
                           "" if x == y else "sequential %s vs parallel %s" % (sorted(x.items()), sorted(y.items())))
    ctx.floor("C07-R3", "types with both Join and ParJoin", n, 30)
