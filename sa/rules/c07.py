"""C07 - parallel join delivers the same items as sequential join, each exactly once (clause)."""
from ..core import base_ty
from ..joins import abstraction, join_impls, method_body, norm
from .. import witness

ARMED = True
TECHNIQUE = "trait-bound queries on the impl tables, value-origin of the producer split over MIR, Join/ParJoin sibling agreement, compile-fail witnesses"
EXPLANATION = (
    "R1 (bounds that make mutable sharing sound): every ParJoin impl whose self type is `&mut` of a specs storage carries `DistinctStorage` and `Sync` "
    "on the component storage; the unsafe Send/Sync impls of the shared-handle types carry DistinctStorage; the set of DistinctStorage implementors "
    "and the set of Tracked implementors are disjoint; for every DistinctStorage type, shared_get_mut hands no `&mut` rooted in self to any call "
    "that does not depend on the index parameter (no hidden shared state is mutated). R2 (split): in the parallel producer's split() exactly one BitProducer::split consumes self.keys; the first "
    "returned producer is built from component 0 and the second - unconditionally, through Option::map only - from component 1 of that split, both "
    "with self.values; no producer or key set is cloned or filtered; fold_with consumes keys once and asks J::get with the iterator's item; "
    "drive_unindexed opens the join once and wraps the mask's own iterator. R3 (same items): for every type with both Join and ParJoin the masks are "
    "identical and, where the Value types agree, open()/get() agree on their callee abstraction. W1/W2/W8: par_join / join over tracked storages and "
    "sending the shared item of a tracked storage to another thread do not compile; the VecStorage twins do."
)
NOT_DECIDED = ("that hibitset's BitProducer::split partitions the index space; that rayon's bridge joins all workers before returning and calls split/fold "
               "as documented; visibility of the workers' writes (rayon's join semantics)")
TRUSTED = ["rustc nightly trait solving and MIR", "hibitset BitProducer", "rayon", "sa/ analyses"]
LEVEL_TEXT = ("Clause only: what specs contributes to a parallel join - the bounds without which mutable sharing is unsound, that both halves of every "
              "split are handed on exactly once with the same values, and that the parallel impls agree with the sequential ones - is decided by "
              "type-level queries, compile-fail witnesses and value-origin over the producer. Partitioning and scheduling are hibitset's and rayon's.")

PJ = "join::par_join::ParJoin"


def configs(tier):
    return ["A"] if tier == "quick" else ["A", "F"]


def run(ctx):
    for r, t in [("C07-R1", "bounds that make mutable sharing sound"), ("C07-R2", "split hands both halves on exactly once with the same values"),
                 ("C07-R3", "parallel impls agree with the sequential ones")]:
        ctx.rule(r, t)
    for cfg in configs(ctx.tier):
        facts = ctx.facts(cfg)
        r1(ctx, facts)
        r2(ctx, facts)
        r3(ctx, facts)
    witness.run_set(ctx, "C07", ["w1_par_join_flagged_mut", "w1_par_join_deref_flagged_mut", "w2_join_deref_flagged_mut",
                                 "w8_send_shared_item_flagged", "w8_par_join_restricted_flagged"])


def has_pred(im, needle):
    return any(needle in p for p in im["preds"])


def r1(ctx, facts):
    n = 0
    for im in facts.impls_of(PJ):
        st = im["self_ty"]
        if st.startswith("&") and " mut " in st[:12] and base_ty(st).startswith("storage::"):
            n += 1
            for needle in ("storage::DistinctStorage", "std::marker::Sync"):
                ok = has_pred(im, needle)
                ctx.ob("C07-R1", "ParJoin for %s requires %s" % (st, needle.split("::")[-1]), ok, "%s:%d" % (im["file"], im["line"]),
                       "" if ok else "the mutable parallel join no longer requires %s on the component storage: storages whose mutable access touches "
                       "shared state (tracked storages) could be mutated from several workers at once" % needle)
    ctx.floor("C07-R1", "mutable ParJoin impls over storages", n, 2)
    m = 0
    for im in facts.impls:
        if im["trait"] in ("std::marker::Send", "std::marker::Sync") and base_ty(im["self_ty"]).startswith("storage::restrict::"):
            m += 1
            ok = has_pred(im, "storage::DistinctStorage")
            ctx.ob("C07-R1", "unsafe %s for %s requires DistinctStorage" % (im["trait"].split("::")[-1], base_ty(im["self_ty"])), ok,
                   "%s:%d" % (im["file"], im["line"]), "" if ok else "shared-handle type can cross threads without DistinctStorage")
    ctx.floor("C07-R1", "unsafe Send/Sync impls of shared-handle types", m, 3)
    distinct = {base_ty(i["self_ty"]) for i in facts.impls_of("storage::DistinctStorage")}
    tracked = {base_ty(i["self_ty"]) for i in facts.impls_of("storage::track::Tracked")}
    both = distinct & tracked
    ctx.ob("C07-R1", "no tracked storage is a DistinctStorage", not both and bool(distinct) and bool(tracked), "",
           "" if not both else "%s implement both Tracked and DistinctStorage: their shared event channel would be written from several workers" % sorted(both))
    for im in facts.impls_of("storage::SharedGetMutStorage"):
        if base_ty(im["self_ty"]) not in distinct:
            continue
        b = facts.body(im["items"].get("shared_get_mut", ""))
        if not b:
            continue
        bad = []
        for bb, t in b.calls():
            for a in t["args"]:
                rs = b.roots(b.operand_origin(a)) if isinstance(a, dict) and str(a.get("ty", "")).startswith("&mut") else set()
                # a `&mut` to the slot selected by the index parameter is what the method is for; one that does not depend on the index is shared state
                if any(r[0] == "param" and r[1] == 1 for r in rs) and not any(r[0] == "param" and r[1] == 2 for r in rs):
                    bad.append("%s at %s" % (t["callee"].get("path"), b.loc(bb)))
        ctx.ob("C07-R1", "%s::shared_get_mut mutates no shared state" % base_ty(im["self_ty"]), not bad, b.loc(),
               "" if not bad else "a DistinctStorage hands `&mut` rooted in self to %s inside shared_get_mut: concurrent calls with distinct indices would race" % bad)


def r2(ctx, facts):
    sp = [b for b in facts.bodies if b.name == "split" and b.trait_item and "UnindexedProducer" in b.trait_item and "JoinProducer" in (b.self_ty or "")]
    ctx.anchor("C07-R2", "JoinProducer::split", sp)
    for b in sp:
        splits = [bb for bb, t in b.calls() if t["callee"].get("name") == "split" and "BitProducer" in (t["callee"].get("path", "") + (t["callee"].get("self_ty") or ""))]
        ok = len(splits) == 1 and b.arg_origin(splits[0], 0) == ("param", 1, ("keys",))
        ctx.ob("C07-R2", "split() splits self.keys exactly once", ok, b.loc(), "" if ok else "%d BitProducer::split calls / wrong receiver" % len(splits))
        if not ok:
            continue
        sb = splits[0]
        clones = [b.loc(bb) for bb, t in b.calls() if t["callee"].get("name") in ("clone", "filter", "take", "and_then", "xor", "zip", "or")]
        news = [(bb, t) for bb, t in b.calls() if any(x.name == "new" and "JoinProducer" in (x.self_ty or "") for x in facts.targets(t["callee"]))]
        first_ok = any(b.arg_origin(bb, 0) == ("call", sb, ("0",)) and b.arg_origin(bb, 1) == ("param", 1, ("values",)) for bb, t in news)
        # second half: Option::map(component 1, closure building a producer with the same values)
        second_ok = False
        why2 = "the second half of the split is not mapped into a producer"
        for bb, t in b.calls():
            if t["callee"].get("name") == "map" and "option::Option" in t["callee"].get("path", "") and b.arg_origin(bb, 0) == ("call", sb, ("1",)):
                co = b.arg_origin(bb, 1)
                if co[0] == "agg":
                    rv = b.blocks[co[1]]["stmts"][co[2]]["rv"]
                    cb = facts.body(rv.get("closure", ""))
                    caps = [b.operand_origin(x) for x in rv["ops"]]
                    if cb is not None and ("param", 1, ("values",)) in caps:
                        cn = [(cbb, ct) for cbb, ct in cb.calls() if any(x.name == "new" and "JoinProducer" in (x.self_ty or "") for x in facts.targets(ct["callee"]))]
                        if cn and all(cb.arg_origin(cbb, 0) == ("param", 2, ()) for cbb, ct in cn) and cb.must_pass(0, [x for x, _ in cn])[0]:
                            second_ok = True
                            # result of map is what is returned as the second component
                            why2 = ""
        ret_ok = False
        for d in b.defs().get(0, []):
            if d[0] == "stmt" and d[4]["k"] == "aggregate" and d[4].get("tuple") and len(d[4]["ops"]) == 2:
                o0, o1 = b.operand_origin(d[4]["ops"][0]), b.operand_origin(d[4]["ops"][1])
                ret_ok = o0[0] == "call" and o0[1] in [x for x, _ in news] and o1[0] == "call" and b.term(o1[1])["callee"].get("name") == "map" and \
                    b.arg_origin(o1[1], 0) == ("call", sb, ("1",))
        ctx.ob("C07-R2", "first half -> first producer (same values)", first_ok, b.loc(sb), "" if first_ok else "the first producer is not built from component 0 of the split with self.values")
        ctx.ob("C07-R2", "second half -> second producer, unconditionally (same values)", second_ok and ret_ok and not clones, b.loc(sb),
               "" if second_ok and ret_ok and not clones else "the second half of the key space can be dropped, filtered, cloned or paired with other values "
               "(map over component 1: %s, returned as-is: %s, clone/filter-like calls: %s): indices would be lost or delivered twice" % (second_ok, ret_ok, clones))
    fw = [b for b in facts.bodies if b.name == "fold_with" and "JoinProducer" in (b.self_ty or "")]
    ctx.anchor("C07-R2", "JoinProducer::fold_with", fw)
    for b in fw:
        maps = [bb for bb, t in b.calls() if t["callee"].get("name") == "map" and any(r[0] == "param" and r[1] == 1 and r[2][:1] == ("keys",) for r in b.roots(b.arg_origin(bb, 0)))]
        cons = [bb for bb, t in b.calls() if t["callee"].get("name") == "consume_iter" and any(b.depends_on_call(b.arg_origin(bb, 1), m) for m in maps)]
        ok = len(maps) == 1 and bool(cons) and b.must_pass(0, cons)[0]
        # the closure: J::get(values, idx)
        for bid, blk in b.blocks.items():
            for s in blk["stmts"]:
                rv = s["rv"]
                if rv["k"] == "aggregate" and "closure" in rv:
                    cb = facts.body(rv["closure"])
                    if cb:
                        g = [(cbb, ct) for cbb, ct in cb.calls() if norm(ct["callee"].get("path")) == "JOIN::get"]
                        if not g or not all(cb.arg_origin(cbb, 1) == ("param", 2, ()) for cbb, ct in g) or \
                                ("param", 1, ("values",)) not in [b.operand_origin(x) for x in rv["ops"]]:
                            ok = False
        ctx.ob("C07-R2", "fold_with feeds every key of its part to J::get with its own values", ok, b.loc(),
               "" if ok else "fold_with does not map each key of self.keys through J::get(self.values, key) into the folder exactly once")
    du = [b for b in facts.bodies if b.name == "drive_unindexed" and "JoinParIter" in (b.self_ty or "")]
    ctx.anchor("C07-R2", "JoinParIter::drive_unindexed", du)
    for b in du:
        opens = [bb for bb, t in b.calls() if norm(t["callee"].get("path")) == "JOIN::open"]
        ok = len(opens) == 1
        news = [(bb, t) for bb, t in b.calls() if any(x.name == "new" and "JoinProducer" in (x.self_ty or "") for x in facts.targets(t["callee"]))]
        ok = ok and len(news) == 1
        if ok:
            ob, (nb, nt) = opens[0], news[0]
            ok = b.depends_on_call(b.arg_origin(nb, 0), ob, ("0",)) and b.depends_on_call(b.arg_origin(nb, 1), ob, ("1",))
        ctx.ob("C07-R2", "drive_unindexed opens once and produces from that mask and those values", ok, b.loc(),
               "" if ok else "the producer is not built from the (mask, values) of a single open()")


def r3(ctx, facts):
    by = join_impls(facts)
    n = 0
    for st, m in sorted(by.items()):
        if "Join" in m and "ParJoin" in m:
            n += 1
            a, p = m["Join"], m["ParJoin"]
            ok = norm(a["assoc"].get("Mask")) == norm(p["assoc"].get("Mask"))
            ctx.ob("C07-R3", "%s: Join and ParJoin use the same mask" % st, ok, "%s:%d" % (p["file"], p["line"]),
                   "" if ok else "sequential mask %s vs parallel mask %s" % (a["assoc"].get("Mask"), p["assoc"].get("Mask")))
            if norm(a["assoc"].get("Value")) == norm(p["assoc"].get("Value")):
                for meth in ("open", "get"):
                    x, y = abstraction(facts, method_body(facts, a, meth)), abstraction(facts, method_body(facts, p, meth))
                    ctx.ob("C07-R3", "%s: Join::%s and ParJoin::%s agree" % (st, meth, meth), x == y, "",
                           "" if x == y else "sequential %s vs parallel %s" % (sorted(x.items()), sorted(y.items())))
    ctx.floor("C07-R3", "types with both Join and ParJoin", n, 30)
