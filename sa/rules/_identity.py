"""Identity narrowing (shared by C03-R3 and C04-R10).

An entity index (`Index` = u32) and a generation (i32) ARE the identity of an entity: every mask test, every slot lookup and
every liveness comparison is keyed on them.  An integer cast that narrows such a value below its 32 bits conflates entities
whose indices (generations) differ by a multiple of 2^16 / 2^8 - a far-apart entity then reads, overwrites or removes another
entity's component (C04), or a stale handle compares equal to the live one (C03).  The rule is exact about what it looks at:
an `IntToInt` cast whose target is narrower than 32 bits and whose operand is - through copies, casts and references only,
no arithmetic in between - an identity source:
  * a `u32` parameter of a method of a storage / join trait impl (the `id: Index` every raw accessor is handed),
  * the result of a method of `Entity`, `Generation` or `ZeroableGeneration` that returns an integer (`id()`, ...),
  * a field of a parameter of those three types, or the inner `NonZeroI32::get` of a generation.
A value that went through arithmetic first (`id % 64`, `id >> 6`: a bit position, a bucket) is not an identity any more and
is not looked at.  Casts to 32 bits or wider (`usize as Index`, `Index as usize`) keep the whole identity."""
from ..core import base_ty, op_place

W = {"u8": 8, "i8": 8, "u16": 16, "i16": 16, "u32": 32, "i32": 32, "u64": 64, "i64": 64, "usize": 64, "isize": 64, "u128": 128, "i128": 128}
ID_TYPES = ("world::entity::Entity", "world::entity::Generation", "world::entity::ZeroableGeneration")


def identity_source(b, og, scope_param_u32, _depth=0):
    """why `og` is an identity value (text) or None"""
    if og is None or _depth > 6:
        return None
    if og[0] == "param":
        ty = b.ltype.get(og[1], "")
        bt = base_ty(ty)
        if bt in ID_TYPES:
            return "a field of the %s parameter" % bt.rsplit("::", 1)[1]
        if not og[2] and ty == "u32" and scope_param_u32:
            return "the index parameter _%d" % og[1]
        return None
    if og[0] == "call":
        t = b.term(og[1])
        c = t["callee"]
        if not isinstance(c, dict):
            return None
        st = base_ty(c.get("self_ty") or "")
        p = c.get("path", "")
        if st in ID_TYPES or any(p.startswith(x + "::") for x in ID_TYPES):
            dty = b.ltype.get(t["dst"]["local"], "") if not t["dst"]["proj"] else ""
            if dty in W:
                return "the result of %s" % p
            return None
        if p.endswith("::get") and "NonZero" in p and t["args"]:
            r = b.arg_origin(og[1], 0)
            if r and r[0] == "param" and base_ty(b.ltype.get(r[1], "")) in ID_TYPES:
                return "the inner value of a generation"
        return None
    if og[0] == "phi":
        for x in og[2]:
            r = identity_source(b, x, scope_param_u32, _depth + 1)
            if r:
                return r
    return None


def narrowing_casts(b, scope_param_u32):
    """(bb, line, src ty, dst ty, why) for the identity-narrowing casts of one (expanded) body; also the number of integer casts looked at"""
    out = []
    seen = 0
    for bb, blk in b.blocks.items():
        if blk.get("cleanup"):
            continue
        for s in blk["stmts"]:
            rv = s["rv"]
            if rv["k"] != "cast" or not str(rv.get("cast", "")).startswith("IntToInt"):
                continue
            o = rv["ops"][0]
            st = o.get("ty") if isinstance(o, dict) else None
            if st not in W or rv["ty"] not in W:
                continue
            seen += 1
            if not (W[rv["ty"]] < 32 <= W[st]):
                continue
            if op_place(o) is None:
                continue
            why = identity_source(b, b.operand_origin(o), scope_param_u32)
            if why:
                out.append((bb, s.get("line"), st, rv["ty"], why))
    return out, seen


def rule(ctx, facts, rid, in_scope, floor, consequence):
    """one obligation per body in scope that casts integers; a floor on the integer casts looked at"""
    total = 0
    for b in facts.bodies:
        if not in_scope(b):
            continue
        bad, seen = narrowing_casts(b, True)
        total += seen
        if not seen:
            continue
        ctx.ob(rid, "%s keeps all 32 bits of the indices / generations it casts" % b.path, not bad, b.loc(bad[0][0]) if bad else b.loc(),
               "" if not bad else "`as %s` applied to %s (a %s): the cast keeps only the low %d bits, so two entities whose value differs by a multiple of 2^%d "
               "become the same key; %s" % (bad[0][3], bad[0][4], bad[0][2], W[bad[0][3]], W[bad[0][3]], consequence))
    ctx.floor(rid, "integer casts examined", total, floor)
