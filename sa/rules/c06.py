"""C06 - a join visits exactly the intersection, once each, in index order (clause: specs' plumbing)."""
import re

from ..core import base_ty
from ..joins import abstraction, join_impls, method_body, norm, unconstrained_kind
from ..summaries import AliveClass, entity_of_index
from .. import witness

ARMED = True
TECHNIQUE = "sibling agreement of the Join/LendJoin/ParJoin impls (types, is_unconstrained, body abstractions), guard-dominance and value-origin of the index plumbing over MIR"
EXPLANATION = (
    "The set and ordering semantics live in hibitset (BitSetAnd, BitIter) and are not decided. In specs: R1 (siblings): for every type implementing "
    "more than one of LendJoin / Join / ParJoin the resolved Mask types are identical (join traits identified inside projections), is_unconstrained "
    "agrees, open() bodies agree on their callee abstraction, and get() bodies agree wherever two siblings have the same Value type. R2 (optional "
    "members): every MaybeJoin::get calls the inner get only on the true-edge of contains(inner mask, same id) and returns None otherwise; "
    "is_unconstrained is true; Entries::get builds its entry through entry_inner(id). R3 (lookup by entity): JoinLendIter::get reaches J::get only "
    "under keys.contains(index of e) and is_alive(e), with that same index. R4 (index plumbing): JoinIter::next, JoinLendIter::next/for_each and "
    "the parallel producer hand J::get the item of the mask iterator unchanged; every tuple impl's get() passes its own index parameter to every "
    "member and member k's value to member k's get (k-th type parameter), and open() puts member k's mask / value at position k of the AND-tree "
    "input / value tuple. R5 (storage members): open() of the storage / restricted / change-set / drain impls returns the mask and the storage of "
    "the same owner; AntiStorage::open returns the complement of the mask it wraps. R6: arity tables (observation). R7 (constructors): JoinIter::new and JoinLendIter::new call open() once and build their state from it alone - keys = BitSetLike::iter of the opened mask with no other call in between (no hand-assembled, pre-advanced or filtered iterator), values = the opened values. W7: Entries is lend-only."
)
NOT_DECIDED = ("'exactly the intersection, ascending, once each' - hibitset's BitSetAnd / BitIter / BitSetNot semantics and layer arithmetic; that an item "
               "equals a direct lookup by VALUE (storage kinds, C04)")
TRUSTED = ["rustc nightly MIR and trait resolution", "hibitset", "sa/ analyses"]
LEVEL_TEXT = ("Clause only: everything specs itself contributes to a join - which mask and value each member hands out, that sibling impls agree, that "
              "the index produced by the mask iterator is the index every member is asked for, optional and by-entity lookups test the right mask - is "
              "decided for all arities and member kinds. The intersection/ordering semantics are hibitset's and NOT decided.")


def configs(tier):
    return ["A"] if tier == "quick" else ["A", "F", "N", "FN"]


def run(ctx):
    for r, t in [("C06-R1", "Join / LendJoin / ParJoin siblings agree"), ("C06-R2", "optional members consult the real mask"),
                 ("C06-R3", "lookup by entity checks the joined mask and aliveness"), ("C06-R4", "the mask iterator's index is the index every member is asked for"),
                 ("C06-R5", "storage members hand out their own mask and storage"), ("C06-R6", "arity tables (observation)"),
                 ("C06-R7", "join iterators start from the full iterator of the single opened mask"),
                 ("C06-R8", "the join iterator never accounts for an item without the members' get()")]:
        ctx.rule(r, t)
    for cfg in configs(ctx.tier):
        facts = ctx.xfacts(cfg)
        r1(ctx, facts)
        r2(ctx, facts)
        r3(ctx, facts)
        r4(ctx, facts)
        r5(ctx, facts)
        r6(ctx, facts)
        r7(ctx, facts)
        r8(ctx, facts)
    witness.run_set(ctx, "C06", ["w7_entries_not_join"])


def r1(ctx, facts):
    by = join_impls(facts)
    n = 0
    for st, m in sorted(by.items()):
        if len(m) < 2:
            continue
        n += 1
        key = "siblings of %s" % st
        masks = {t: norm(i["assoc"].get("Mask")) for t, i in m.items()}
        ok = len(set(masks.values())) == 1
        ctx.ob("C06-R1", key + ": Mask", ok, "%s:%d" % (list(m.values())[0]["file"], list(m.values())[0]["line"]),
               "" if ok else "sibling join impls use different masks: %s" % masks)
        uk = {t: unconstrained_kind(facts, i) for t, i in m.items()}
        ok = len(set(map(repr, uk.values()))) == 1
        ctx.ob("C06-R1", key + ": is_unconstrained", ok, "", "" if ok else "is_unconstrained differs: %s" % uk)
        values = {t: norm(i["assoc"].get("Value")) for t, i in m.items()}
        gets = {t: abstraction(facts, method_body(facts, i, "get")) for t, i in m.items()}
        opens = {t: abstraction(facts, method_body(facts, i, "open")) for t, i in m.items()}
        ts = sorted(m)
        for a in range(len(ts)):
            for b_ in range(a + 1, len(ts)):
                ta, tb = ts[a], ts[b_]
                if values[ta] == values[tb]:
                    ok = gets[ta] == gets[tb]
                    oko = opens[ta] == opens[tb]
                    ctx.ob("C06-R1", key + ": open() %s vs %s" % (ta, tb), oko, "",
                           "" if oko else "open() bodies differ although Value types agree: %s vs %s" % (sorted(opens[ta].items()), sorted(opens[tb].items())))
                    ctx.ob("C06-R1", key + ": get() %s vs %s" % (ta, tb), ok, "",
                           "" if ok else "get() bodies differ although Value types agree: %s vs %s" % (sorted(gets[ta].items()), sorted(gets[tb].items())))
    ctx.floor("C06-R1", "types with more than one join impl", n, 30)


def r2(ctx, facts):
    gets = [b for b in facts.bodies if b.name == "get" and b.trait_item and base_ty(b.self_ty or "") == "join::maybe::MaybeJoin"]
    ctx.floor("C06-R2", "MaybeJoin get() impls", len(gets), 2)
    for b in gets:
        inner = [bb for bb, t in b.calls() if norm(t["callee"].get("path")) == "JOIN::get"]
        ok = bool(inner)
        why = "MaybeJoin::get does not call the inner get"
        for bb in inner:
            vo = b.arg_origin(bb, 0)
            io = b.arg_origin(bb, 1)

            def is_contains(gbb, gt):
                if gt["callee"].get("name") != "contains":
                    return False
                mo = b.arg_origin(gbb, 0)
                return mo[0] == "param" and mo[1] == 1 and mo[2][:1] == ("0",) and b.arg_origin(gbb, 1) == io
            edges = b.bool_guard_edges(is_contains)
            g = bool(edges) and bb not in b.reachable(0, removed={e["true_edge"] for e in edges})
            v = vo[0] == "param" and vo[1] == 1 and vo[2][:1] == ("1",) and io == ("param", 2, ())
            if not (g and v):
                ok = False
                why = "inner get not under contains(inner mask, same id): guarded=%s, value/id plumbing=%s" % (g, v)
            # None on the other edge
            # the Option aggregates that can be the returned value (built into the return place directly or into a temporary first)
            aggs = []
            todo = list(b.ret_origins())
            while todo:
                o_ = todo.pop()
                if o_[0] == "phi":
                    todo.extend(o_[2])
                elif o_[0] == "agg" and not o_[3]:
                    aggs.append(o_)
            nones = [("agg", o_[1]) for o_ in aggs if b.blocks[o_[1]]["stmts"][o_[2]]["rv"].get("variant") == "None"]
            somes = [("agg", o_[1]) for o_ in aggs if b.blocks[o_[1]]["stmts"][o_[2]]["rv"].get("variant") == "Some"]
            if edges and (not nones or any(d[1] in b.reachable(0, removed={e["false_edge"] for e in edges}) for d in nones) or
                          any(d[1] in b.reachable(0, removed={e["true_edge"] for e in edges}) for d in somes)):
                ok = False
                why = "present/absent not reported by the mask test (Some only on the true edge, None only on the false edge)"
        ctx.ob("C06-R2", "%s consults the member's real mask" % b.path, ok, b.loc(), "" if ok else why)
    for st, m in join_impls(facts).items():
        if base_ty(st) == "join::maybe::MaybeJoin":
            for t, i in m.items():
                uk = unconstrained_kind(facts, i)
                ctx.ob("C06-R2", "MaybeJoin %s is unconstrained" % t, uk == "true", "", "" if uk == "true" else "is_unconstrained = %r" % (uk,))
    eg = [b for b in facts.bodies if b.name == "get" and b.trait_item and base_ty(b.self_ty or "") == "storage::entry::Entries"]
    ctx.floor("C06-R2", "Entries get() impls", len(eg), 1)
    for b in eg:
        ok = any(any(x.name == "entry_inner" for x in facts.targets(t["callee"])) and b.arg_origin(bb, 1) == ("param", 2, ()) for bb, t in b.calls())
        ctx.ob("C06-R2", "%s builds its entry via entry_inner(id)" % b.path, ok, b.loc(), "" if ok else "Entries::get does not go through the mask-deciding entry_inner(id)")


def r3(ctx, facts):
    alive = AliveClass(facts)
    bs = [b for b in facts.methods_named("join::lend_join::JoinLendIter", "get") if not b.trait_item]
    ctx.anchor("C06-R3", "JoinLendIter::get", bs)
    for b in bs:
        inner = [bb for bb, t in b.calls() if norm(t["callee"].get("path")) == "JOIN::get"]
        ok = bool(inner)
        why = "no J::get call"
        for bb in inner:
            x = entity_of_index(b, b.arg_origin(bb, 1))
            if x is None:
                ok, why = False, "index handed to J::get is not the entity's index"
                continue
            g1, _ = alive.guarded(b, bb, x)

            def is_contains(gbb, gt):
                if gt["callee"].get("name") != "contains":
                    return False
                mo = b.arg_origin(gbb, 0)
                return mo[0] == "param" and mo[1] == 1 and mo[2][:1] == ("keys",) and entity_of_index(b, b.arg_origin(gbb, 1)) == x
            edges = b.bool_guard_edges(is_contains)
            g2 = bool(edges) and bb not in b.reachable(0, removed={e["true_edge"] for e in edges})
            vo = b.arg_origin(bb, 0)
            g3 = vo[0] == "param" and vo[1] == 1 and vo[2][:1] == ("values",)
            if not (g1 and g2 and g3):
                ok, why = False, "is_alive guard: %s, keys.contains(same index) guard: %s, own values: %s" % (g1, g2, g3)
        ctx.ob("C06-R3", "JoinLendIter::get returns an item exactly for live members of the intersection", ok, b.loc(), "" if ok else why)
    gu = [b for b in facts.methods_named("join::lend_join::JoinLendIter", "get_unchecked") if not b.trait_item]
    for b in gu:
        inner = [bb for bb, t in b.calls() if norm(t["callee"].get("path")) == "JOIN::get"]
        ok = bool(inner)
        for bb in inner:
            io = b.arg_origin(bb, 1)
            edges = b.bool_guard_edges(lambda gbb, gt: gt["callee"].get("name") == "contains" and b.arg_origin(gbb, 0)[:3] == ("param", 1, ("keys",)) and b.arg_origin(gbb, 1) == io)
            if not (edges and bb not in b.reachable(0, removed={e["true_edge"] for e in edges})):
                ok = False
        ctx.ob("C06-R3", "JoinLendIter::get_unchecked checks the joined mask", ok, b.loc(), "" if ok else "J::get reachable without keys.contains(index)")


def r4(ctx, facts):
    # iterators: closures that call J::get must pass their own parameter (the item of the mask iterator) and the captured values
    n = 0
    for b in facts.bodies:     # closures that were not absorbed into the body that builds them (those are examined there, below)
        if b.kind != "Closure":
            continue
        par = b.path.rsplit("::{closure", 1)[0]
        if not any(par.endswith(x) for x in ("JoinIter::<J>::next", "JoinLendIter::<J>::next", "JoinLendIter::<J>::for_each", "::fold_with")) and \
                "join::" not in par:
            continue
        for bb, t in b.calls():
            if norm(t["callee"].get("path")) != "JOIN::get":
                continue
            n += 1
            io = b.arg_origin(bb, 1)
            ok = io == ("param", 2, ())
            # the closure is handed to map / for_each over the key iterator of the same object
            site = facts.closure_site(b)
            fed = False
            if site:
                pb, pbb, pi, rv = site
                for cbb, ct in pb.calls():
                    if ct["callee"].get("name") in ("map", "for_each") and any(pb.operand_origin(a) == ("agg", pbb, pi, ()) for a in ct["args"]):
                        ro = pb.roots(pb.arg_origin(cbb, 0))
                        fed = any(r[0] == "param" and r[1] == 1 and r[2][:1] == ("keys",) for r in ro)
            ctx.ob("C06-R4", "%s passes the mask iterator's item to J::get" % b.path, ok and fed, b.loc(bb),
                   "" if ok and fed else "index handed to J::get is not the closure's item parameter (%r) or the closure is not driven by the key iterator (%s)" % (io, fed))
    # the same plumbing written without a closure: `match self.keys.next() { Some(idx) => J::get(&mut self.values, idx) .. }`
    for b in facts.bodies:
        if b.kind == "Closure" or not b.self_ty or base_ty(b.self_ty) not in ("join::JoinIter", "join::lend_join::JoinLendIter", "join::par_join::JoinProducer") or \
                b.name not in ("next", "for_each", "fold_with"):
            continue
        for bb, t in b.real_calls():
            if norm(t["callee"].get("path")) != "JOIN::get":
                continue
            n += 1
            io = b.arg_origin(bb, 1)
            ok = io[0] == "call" and io[2][:1] == ("as Some",) and b.term(io[1])["callee"].get("name") == "next" and \
                any(r[0] == "param" and r[1] == 1 and r[2][:1] == ("keys",) for r in b.roots(b.arg_origin(io[1], 0)))
            vo = b.arg_origin(bb, 0)
            okv = vo[0] == "param" and vo[1] == 1 and vo[2][:1] == ("values",)
            ctx.ob("C06-R4", "%s passes the mask iterator's item to J::get" % b.path, ok and okv, b.loc(bb),
                   "" if ok and okv else "index handed to J::get is not the item of self.keys.next() (%r) or the values are not self.values (%r)" % (io, vo))
    ctx.floor("C06-R4", "iterator sites calling J::get", n, 3)
    # tuples
    nt = 0
    for st, m in join_impls(facts).items():
        if not st.startswith("("):
            continue
        members = [x.strip() for x in st.strip("()").split(",") if x.strip()]
        for tname, im in m.items():
            g = method_body(facts, im, "get")
            o = method_body(facts, im, "open")
            if not g or not o:
                continue
            nt += 1
            calls = [(bb, t) for bb, t in g.calls() if norm(t["callee"].get("path")) == "JOIN::get"]
            ok = len(calls) == len(members)
            why = "" if ok else "%d member get() calls for %d members" % (len(calls), len(members))
            res = None
            for d in g.defs().get(0, []):
                if d[0] == "stmt" and d[4]["k"] == "aggregate" and d[4].get("tuple"):
                    res = [g.operand_origin(x) for x in d[4]["ops"]]
            for bb, t in calls:
                mt = t["callee"].get("self_ty")
                if mt not in members:
                    ok, why = False, "get() of a non-member type %s" % mt
                    continue
                k = members.index(mt)
                vo, io = g.arg_origin(bb, 0), g.arg_origin(bb, 1)
                if not (vo == ("param", 1, (str(k),)) and io == ("param", 2, ())):
                    ok, why = False, "member %s is asked for index %r with value %r (expected its own value v.%d and the shared index)" % (mt, io, vo, k)
                if res is None or k >= len(res) or res[k] != ("call", bb, ()):
                    ok, why = False, "item of member %s is not at position %d of the result" % (mt, k)
            ctx.ob("C06-R4", "%s %s::get asks every member for the same index" % (st, tname), ok, g.loc(), why)
            ocalls = [(bb, t) for bb, t in o.calls() if norm(t["callee"].get("path")) == "JOIN::open"]
            ok = len(ocalls) == len(members)
            why = "" if ok else "%d member open() calls for %d members" % (len(ocalls), len(members))
            ands = [bb for bb, t in o.calls() if t["callee"].get("name") == "and" and "BitAnd" in t["callee"].get("path", "")]
            mtuple = vtuple = None
            if ands:
                ao = o.arg_origin(ands[0], 0)
                if ao[0] == "agg":
                    mtuple = [o.operand_origin(x) for x in o.blocks[ao[1]]["stmts"][ao[2]]["rv"]["ops"]]
            for d in o.defs().get(0, []):
                if d[0] == "stmt" and d[4]["k"] == "aggregate" and d[4].get("tuple") and len(d[4]["ops"]) == 2:
                    mo_ = o.operand_origin(d[4]["ops"][0])
                    vo_ = o.operand_origin(d[4]["ops"][1])
                    if not (ands and mo_ == ("call", ands[0], ())):
                        ok, why = False, "the joined mask is not the result of BitAnd::and"
                    if vo_[0] == "agg":
                        vtuple = [o.operand_origin(x) for x in o.blocks[vo_[1]]["stmts"][vo_[2]]["rv"]["ops"]]
            for bb, t in ocalls:
                mt = t["callee"].get("self_ty")
                if mt not in members:
                    ok, why = False, "open() of a non-member type"
                    continue
                k = members.index(mt)
                if o.arg_origin(bb, 0) != ("param", 1, (str(k),)):
                    ok, why = False, "member %s opened with the wrong field" % mt
                if mtuple is None or k >= len(mtuple) or mtuple[k] != ("call", bb, ("0",)):
                    ok, why = False, "mask of member %s is not input %d of the AND-tree" % (mt, k)
                if vtuple is None or k >= len(vtuple) or vtuple[k] != ("call", bb, ("1",)):
                    ok, why = False, "value of member %s is not at position %d of the value tuple" % (mt, k)
            ctx.ob("C06-R4", "%s %s::open ANDs every member's mask and keeps every member's value in place" % (st, tname), ok, o.loc(), why)
    ctx.floor("C06-R4", "tuple join impls", nt, 30)


def same_owner(b, o1, o2):
    c1, c2 = b.canon(o1), b.canon(o2)
    r1 = {r[:2] + (r[2][:1],) for r in b.roots(c1) if r[0] == "param"}
    r2 = {r[:2] + (r[2][:1],) for r in b.roots(c2) if r[0] == "param"}
    return bool(r1) and r1 == r2


def r5(ctx, facts):
    n = 0
    for st, m in join_impls(facts).items():
        bt = base_ty(st)
        if bt not in ("storage::Storage", "changeset::ChangeSet", "storage::drain::Drain"):
            continue
        for tname, im in m.items():
            o = method_body(facts, im, "open")
            if not o:
                continue
            n += 1
            ms, vs = o.ret_origins(0), o.ret_origins(1)
            ok = bool(ms) and len(ms) == len(vs)
            why = "" if ok else "open() does not return a (mask, value) tuple"
            for mo, vo in zip(ms, vs):
                mc = o.call_of(mo)
                if mc and mc[1].get("name") == "open_mut" and mc[2] == ("0",) and vo == ("call", mc[0], ("1",)) and \
                        any(r[0] == "param" and r[1] == 1 and r[2][:1] == ("data",) for r in o.roots(o.arg_origin(mc[0], 0))):
                    continue    # (mask, storage) of the same MaskedStorage by construction of open_mut (checked below)
                md = o.deps(mo)
                mroots = {r for r in o.roots(mo) if r[0] == "param"}
                vroots = {r for r in o.roots(vo) if r[0] == "param"}
                mask_named = any(x[0] in ("param", "call") and x[-1] and x[-1][-1] == "mask" for x in md | {o.canon(mo)}) or \
                    any(x[0] == "call" and o.term(x[1])["callee"].get("name") in ("open_mut",) for x in md)
                if not (bool(mroots) and {r[:2] for r in mroots} == {r[:2] for r in vroots} and mask_named):
                    ok = False
                    why = "mask roots %s, value roots %s, mask field/open_mut: %s" % (sorted(map(repr, mroots)), sorted(map(repr, vroots)), mask_named)
            ctx.ob("C06-R5", "%s %s::open returns its own mask with its own storage" % (st, tname), ok, o.loc(), why)
    ctx.floor("C06-R5", "storage-like open() impls", n, 8)
    om = [b for b in facts.methods_named("storage::MaskedStorage", "open_mut")]
    ctx.anchor("C06-R5", "MaskedStorage::open_mut", om)
    for b in om:
        ms, vs = b.ret_origins(0), b.ret_origins(1)
        ok = bool(ms) and all(m == ("param", 1, ("mask",)) for m in ms) and all(v == ("param", 1, ("inner",)) for v in vs)
        ctx.ob("C06-R5", "MaskedStorage::open_mut returns (self.mask, self.inner)", ok, b.loc(), "" if ok else "open_mut does not pair the storage's mask with its inner storage")
    for st, m in join_impls(facts).items():
        if base_ty(st) != "storage::AntiStorage":
            continue
        for tname, im in m.items():
            o = method_body(facts, im, "open")
            ok = False
            for bid, blk in o.blocks.items():
                for s in blk["stmts"]:
                    rv = s["rv"]
                    if rv["k"] == "aggregate" and rv.get("adt", "").endswith("BitSetNot") and o.operand_origin(rv["ops"][0]) == ("param", 1, ("0",)):
                        ok = True
            ctx.ob("C06-R5", "AntiStorage %s::open is the complement of the wrapped mask" % tname, ok, o.loc(), "" if ok else "open() does not build BitSetNot(self.0)")
    nots = [b for b in facts.bodies if b.trait_item == "std::ops::Not::not" and base_ty(b.self_ty or "") == "storage::Storage"]
    for b in nots:
        ok = False
        for bid, blk in b.blocks.items():
            for s in blk["stmts"]:
                rv = s["rv"]
                if rv["k"] == "aggregate" and rv.get("adt") == "storage::AntiStorage":
                    ok = b.canon(b.operand_origin(rv["ops"][0]))[-1][-2:] == ("data", "mask")
        ctx.ob("C06-R5", "!&storage wraps the storage's own mask", ok, b.loc(), "" if ok else "Not::not does not wrap self.data.mask")


def r6(ctx, facts):
    by = join_impls(facts)
    tuple_ar = sorted(len([x for x in st.strip("()").split(",") if x.strip()]) for st in by if st.startswith("("))
    band = sorted(len([x for x in i["self_ty"].strip("()").split(",") if x.strip()]) for i in facts.impls if i["trait"] == "join::bit_and::BitAnd")
    ctx.note("[%s] tuple join arities %s; BitAnd arities %s (arities without a BitAnd impl cannot be instantiated: a compile error, not a misbehaviour)" % (
        facts.config, tuple_ar, band))
    ctx.ob("C06-R6", "arity tables recorded", True, "", "tuple %s / BitAnd %s" % (tuple_ar, band), nontrivial=False)


def r7(ctx, facts):
    """constructors of the sequential / lending iterators: one open(), keys = mask.iter() and nothing else, values = the opened values.
    JoinIter::new / JoinLendIter::new (what join() / lend_join() build) are held to it strictly; any OTHER body that builds one of these
    iterators (a new `join_from`-style entry point) and does not start from the full iterator is reported as undetermined: whether a
    hand-assembled iterator state still visits exactly the intended indices in order is bit arithmetic this family cannot decide."""
    n = 0
    ITER_ADTS = ("join::JoinIter", "join::lend_join::JoinLendIter")
    for b in facts.bodies:
        if b.kind == "Closure":
            continue
        aggs = [(bid, i, st["rv"]) for bid, blk in b.blocks.items() for i, st in enumerate(blk["stmts"])
                if st["rv"]["k"] == "aggregate" and st["rv"].get("adt") in ITER_ADTS and bid in b.live_blocks()]
        if not aggs:
            continue
        strict = b.name == "new" and b.self_ty and base_ty(b.self_ty) in ITER_ADTS
        if strict:
            n += 1
        opens = [bb for bb, t in b.real_calls() if norm(t["callee"].get("path")) == "JOIN::open"]
        ok = len({b.site(x) for x in opens}) == 1
        why = "" if ok else "%d open() call sites" % len({b.site(x) for x in opens})
        for bid, i, rv in aggs if ok else []:
            adt = facts.adts.get(rv["adt"]) or {}
            names = [f["name"] for f in (adt.get("variants") or [{"fields": []}])[0]["fields"]]
            if "keys" not in names or "values" not in names or len(rv["ops"]) != len(names):
                ok, why = "undetermined", "cannot see the keys / values fields of the iterator built here"
                break
            ko = b.operand_origin(rv["ops"][names.index("keys")], at=(bid, i))
            vo = b.operand_origin(rv["ops"][names.index("values")], at=(bid, i))
            calls = [d for d in b.deps(ko) if d[0] == "call" and not b.term(d[1]).get("ghost")]
            extra = sorted({(b.term(d[1])["callee"].get("path") or "?") for d in calls
                            if norm(b.term(d[1])["callee"].get("path")) != "JOIN::open"
                            and not (b.term(d[1])["callee"].get("name") in ("iter", "into_iter") and "BitSetLike" in (b.term(d[1])["callee"].get("trait") or b.term(d[1])["callee"].get("path") or ""))
                            and b.term(d[1])["callee"].get("name") not in ("deref", "borrow", "as_ref")})
            iters = [d for d in calls if b.term(d[1])["callee"].get("name") in ("iter", "into_iter")]
            if extra or not iters or not all(b.depends_on_call(ko, ob, ("0",)) for ob in opens):
                ok, why = False, ("the key iterator is not the full iterator of the opened mask (BitSetLike::iter of open().0 and nothing else): it depends on %s" %
                                  (extra or ("no iter() call" if not iters else "something other than the opened mask")))
                break
            if not all(b.depends_on_call(vo, ob, ("1",)) for ob in opens) or [d for d in b.deps(vo) if d[0] == "call" and norm(b.term(d[1])["callee"].get("path")) != "JOIN::open" and not b.term(d[1]).get("ghost")]:
                ok, why = False, "the values are not exactly the values of the single open() (%r)" % (vo,)
                break
        if ok is False and not strict:
            ok = "undetermined"
            why = "a further entry point builds a join iterator by hand; not decided: " + why
        ctx.ob("C06-R7", "%s starts from the opened mask's full iterator" % b.path, ok, b.loc(), why)
    ctx.floor("C06-R7", "join iterator constructors", n, 2)


def r8(ctx, facts):
    """Every item a join iterator accounts for has gone through the members' `get`.  `Iterator for JoinIter` (and any other iterator impl over
    the join iterators) may override provided methods only in ways that still fetch: an override that consumes the KEYS alone (seed C04-k1:
    `fn count(self) -> usize { self.keys.count() }`) returns the right number while members whose `get` has an effect - `Drain` removes, a
    by-value `ChangeSet` takes - are silently skipped.  Rule: every method of such an impl other than size_hint that touches the `keys` field
    also reaches `Join::get` on the `values` field or delegates to `next` on self."""
    n = 0
    for im in facts.impls:
        if im.get("trait") not in ("std::iter::Iterator", "std::iter::DoubleEndedIterator", "std::iter::ExactSizeIterator", "std::iter::FusedIterator"):
            continue
        if base_ty(im["self_ty"]) not in ("join::JoinIter",):
            continue
        for mname, mpath in sorted(im["items"].items()):
            b = facts.body(mpath)
            if not b:
                continue
            n += 1
            if mname == "size_hint":
                continue
            touches_keys = False
            fetches = False
            for bb, t in b.calls():
                c = t["callee"]
                if t["args"]:
                    o = b.arg_origin(bb, 0)
                    roots = b.roots(o)
                    if any(r[0] == "param" and r[1] == 1 and r[2][:1] == ("keys",) for r in roots):
                        touches_keys = True
                    if (c.get("path") or "").endswith("Join::get") and any(r[0] == "param" and r[1] == 1 and r[2][:1] == ("values",) for r in roots):
                        fetches = True
                    if c.get("path") == "std::iter::Iterator::next" and o[:2] == ("param", 1) and not o[2]:
                        fetches = True
            ok = fetches or not touches_keys
            ctx.ob("C06-R8", "%s::%s fetches what it consumes" % (base_ty(im["self_ty"]), mname), ok, b.loc(),
                   "" if ok else "this override consumes the iterator's keys without calling the members' get(): members whose get has an effect "
                   "(Drain removes, a by-value ChangeSet takes the amount) are skipped although the item is counted as visited")
    ctx.floor("C06-R8", "methods of the join iterator's Iterator impl", n, 1)
