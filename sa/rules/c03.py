"""C03 - a dead or stale handle can never read or change a live entity's components."""
import re
from ..core import base_ty, rv_const_bool, strip_ref
from ..summaries import ENTITY, AliveClass, IndexSinks, entity_of_index
from . import _identity

EXPLANATION = (
    "Guard-dominance over the MIR call graph. Index sinks are derived by a field-sensitive fix-point from the raw "
    "accessors UnprotectedStorage::{get,get_mut,insert,remove,drop} / SharedGetMutStorage::shared_get_mut (a function "
    "is a sink in an Index parameter if the parameter reaches a sink argument; impl methods are lifted to their trait "
    "method; indices parked in item-struct fields make the constructor a sink). R1: at EVERY call site in every body "
    "(functions and closures, every feature configuration) where a sink argument is the index of an entity handle x "
    "(Entity::id(x) or a read of x.0), the site must be unreachable once the true-edge of every `is_alive`-class test "
    "of the same x is deleted from the CFG. R2: in those bodies and in every membership query keyed by a handle (role: one "
    "Entity parameter, asks a bit set contains(index of that handle), answers bool / Option - Storage::contains today) every "
    "construction of a positive result (Some/Ok/true) is guarded the same way. The is_alive class is closed under wrappers by a summary. "
    "Hard anchors: the ten public handle-taking access paths named by the property must each carry a guarded site. "
    "R3 (handles are compared whole - what makes the is_alive guard separate a stale handle from the live one): PartialEq::eq of Entity, Generation and "
    "ZeroableGeneration compares each field of one operand directly with the same field of the other (anything else is undetermined), and no "
    "integer cast outside the storages narrows an index parameter, a field of those types or the result of their accessors below 32 bits "
    "(value-origin through copies and casts only; a value that went through arithmetic is not an identity any more)."
)
NOT_DECIDED = ("that Allocator::is_alive itself computes the right answer (C02); behaviour of user-supplied storages; "
               "forging of handles is excluded by the W6 compile-fail witnesses (thorough tier)")
TRUSTED = ["rustc nightly MIR construction and trait resolution", "sa/ fact extractor and analyses (selftest mutants/benign edits)"]

EXCEPTIONS = {
    "<storage::MaskedStorage<T> as storage::AnyStorage>::drop": "purges handles that kill/merge just declared dead (who may call it: C05-R4)",
}

# one named type: a ChangeSet owns a private raw storage that is no component storage of any world - it has no entities resource to ask, and C16
# quantifies over arbitrary indices.  Only raw accesses whose receiver is rooted in the method's own `self` are excepted.
CHANGESET = "changeset::ChangeSet"
CHANGESET_WHY = "a change set has no entities resource and its private storage is no world component storage; C16 quantifies over arbitrary indices"

# public access paths named by the property statement/anchors: (self type base, method)
ANCHORS = [
    ("storage::Storage", "get"), ("storage::Storage", "get_mut"), ("storage::Storage", "insert"),
    ("storage::Storage", "remove"), ("storage::Storage", "entry"), ("storage::Storage", "contains"),
    ("storage::restrict::PairedStorageRead", "get_other"),
    ("storage::restrict::PairedStorageWriteExclusive", "get_other"),
    ("storage::restrict::PairedStorageWriteExclusive", "get_other_mut"),
    ("join::lend_join::JoinLendIter", "get"),
]
SITE_FLOOR = 7  # 10 guarded sites today


def configs(tier):
    return ["A", "F"] if tier == "quick" else ["A", "F", "N", "FN"]


def run(ctx):
    ctx.rule("C03-R1", "every raw access whose index comes from an entity handle x is guarded by is_alive(x)")
    ctx.rule("C03-R2", "every positive result (Some/Ok/true) of a handle-taking accessor is guarded by is_alive(x)")
    for sym, why in EXCEPTIONS.items():
        ctx.exception(sym, why)
    ctx.exception("impl " + CHANGESET + " (accesses to its own inner storage)", CHANGESET_WHY)
    ctx.exception("impl world::entity::Allocator", "the allocator is the definition of aliveness, it holds no components")
    ctx.rule("C03-R3", "handles are compared whole: equality of Entity / Generation covers every field, no index or generation is narrowed")
    for cfg in configs(ctx.tier):
        facts = ctx.xfacts(cfg)
        run_config(ctx, facts)
        r3(ctx, facts)
    if True:
        from .. import witness
        witness.run_set(ctx, "C03", ["w6_forge_entity_new", "w6_forge_entity_tuple", "w6_forge_generation"])


def r3(ctx, facts):
    """is_alive(x) is a comparison of generations: it separates a stale handle from the live one only if that comparison looks at
    the whole generation (and the whole index).  (a) PartialEq::eq of the three identity types compares each field of the
    one operand with the same field of the other, directly; (b) nowhere outside the storages (C04-R10 has those) is an index
    or generation cast to fewer than 32 bits."""
    n = 0
    for b in facts.all_bodies:
        if b.trait_item != "std::cmp::PartialEq::eq" or base_ty(b.self_ty or "") not in _identity.ID_TYPES:
            continue
        adt = facts.adt(base_ty(b.self_ty))
        nf = len(adt["variants"][0]["fields"]) if adt and adt.get("variants") else None
        n += 1
        pairs = set()
        for bb, blk in b.blocks.items():
            for s in blk["stmts"]:
                if s["rv"]["k"] == "binop" and s["rv"].get("op") == "Eq":
                    o = [b.operand_origin(x) for x in s["rv"]["ops"]]
                    pairs.add(tuple(o))
        for bb, t in b.real_calls():
            if t["callee"].get("path") == "std::cmp::PartialEq::eq" and len(t["args"]) == 2:
                pairs.add((b.arg_origin(bb, 0), b.arg_origin(bb, 1)))
        whole = {x[2] for x, y in pairs if x[0] == "param" and y[0] == "param" and {x[1], y[1]} == {1, 2} and x[2] == y[2] and len(x[2]) == 1}
        ok = nf is not None and len(whole) == nf
        ctx.ob("C03-R3", "%s compares every field of the two handles" % b.path, True if ok else "undetermined", b.loc(),
               "" if ok else "equality of an identity type is not the field-by-field comparison (fields compared directly: %d of %s): whether a stale "
               "handle can compare equal to a live one depends on what this body computes" % (len(whole), nf))
    ctx.floor("C03-R3", "PartialEq impls of Entity / Generation / ZeroableGeneration", n, 3)
    _identity.rule(ctx, facts, "C03-R3", lambda b: not b.path.lstrip("<").startswith(("storage::", "changeset::")), 2,
                   "a stale handle then passes is_alive() / the generation comparison of a newer occupant of the index")


def run_config(ctx, facts, R1="C03-R1", R2="C03-R2", only=None, anchors=None, site_floor=SITE_FLOOR):
    """only: substring a body path must contain to be examined (C13 reuses this pack for storage::restrict)"""
    anchors = ANCHORS if anchors is None else anchors
    alive = AliveClass(facts)
    sinks = IndexSinks(facts)
    ctx.anchor(R1, "Allocator::is_alive", facts.body("world::entity::Allocator::is_alive"))
    ctx.anchor(R1, "EntitiesRes::is_alive in the alive class", "world::entity::EntitiesRes::is_alive" in alive.members)
    ctx.note("[%s] alive class: %s" % (facts.config, sorted(alive.members)))
    ctx.note("[%s] derived index sinks: %s; field sinks: %s" % (
        facts.config, sorted(k for k, v in sinks.sinks.items() if v), sorted(sinks.field_sinks)))
    guarded_bodies = set()
    nsites = 0
    for b in facts.bodies:
        if b.self_ty == "world::entity::Allocator" or (only and only not in b.path):
            continue
        sites = []
        for bb, t in b.calls():
            c = t["callee"]
            if "path" not in c:
                continue
            for ai in sinks.sink_args(c):
                if ai < len(t["args"]):
                    own = base_ty(b.self_ty or "") == CHANGESET and not b.trait_item and t["args"] and \
                        any(r[0] == "param" and r[1] == 1 for r in b.roots(b.arg_origin(bb, 0)))
                    sites.append((bb, t["line"], c["path"], b.operand_origin(t["args"][ai]), own))
        for bb, line, adt, field, opnd in sinks.field_sink_sites(b):
            sites.append((bb, line, "%s.%s" % (adt, field), b.operand_origin(opnd), False))
        per_callee = {}
        for bb, line, what, org, own in sites:
            x = entity_of_index(b, org)
            if x is None:
                continue
            n = per_callee.get(what, 0)
            per_callee[what] = n + 1
            key = "%s -> %s #%d" % (b.path, what, n)
            if b.path in EXCEPTIONS or own:
                ctx.ob(R1, key, True, b.loc(line=line), "named exception: " + (EXCEPTIONS.get(b.path) or CHANGESET_WHY), nontrivial=False)
                continue
            ok, edges = alive.guarded(b, bb, x)
            nsites += 1
            if ok:
                guarded_bodies.add(b.path)
                ctx.ob(R1, key, True, b.loc(line=line))
            else:
                path = b.path_to(bb, {e["true_edge"] for e in edges})
                ctx.ob(R1, key, False, b.loc(line=line),
                       "index of entity handle %s reaches %s without a dominating is_alive test of that handle "
                       "(%d is_alive tests of this handle in the body); path: %s" % (fmt_org(b, x), what, len(edges), b.fmt_path(path)))
    ctx.floor(R1, "guarded handle->index->raw-access sites", nsites, site_floor)

    # R2 + anchors
    for base, name in anchors:
        bs = [b for b in facts.methods_named(base, name) if not b.trait_item and any(strip_ref(b.ltype[i]) == ENTITY for i in range(1, b.argc + 1))]
        ctx.anchor(R1, "%s::%s" % (base, name), bs)
        for b in bs:
            if name != "contains":
                ctx.ob(R1, "anchor-guarded:%s" % b.path, b.path in guarded_bodies, b.loc(),
                       "public access path %s has no is_alive-guarded raw access" % b.path, nontrivial=False)
    targets = [b for b in facts.bodies if b.path in guarded_bodies]
    if not only:
        targets += [b for b in facts.methods_named("storage::Storage", "contains") if b not in targets and not b.trait_item]
    # role: membership queries keyed by a handle - any other body with one Entity parameter that asks a bit set `contains(index of that
    # handle)` and answers bool / Option (today Storage::contains; a new `contains_other`, `has`, `is_member` is found the same way)
    for b in facts.bodies:
        if b in targets or b.kind == "Closure" or b.self_ty == "world::entity::Allocator" or base_ty(b.self_ty or "") == CHANGESET or (only and only not in b.path):
            continue
        ents = [i for i in range(1, b.argc + 1) if strip_ref(b.ltype[i]) == ENTITY]
        rty = b.ltype.get(0, "")
        if len(ents) != 1 or not (rty == "bool" or rty.startswith("std::option::Option<")):
            continue
        x = ("param", ents[0], ())
        asks = [bb for bb, t in b.calls() if t["callee"].get("name") == "contains" and "BitSet" in ((t["callee"].get("trait") or "") + (t["callee"].get("path") or "") + (t["callee"].get("self_ty") or ""))
                and len(t["args"]) > 1 and entity_of_index(b, b.arg_origin(bb, 1)) == x]
        if asks:
            targets.append(b)
    # evidence only: bodies that merely delegate a handle to a checked access path
    deleg = set()
    for b in facts.bodies:
        for bb, t in b.calls():
            if any(tb.path in guarded_bodies for tb in facts.targets(t["callee"])) and any(
                    strip_ref(a.get("ty", "")) == ENTITY for a in t["args"] if isinstance(a, dict)):
                deleg.add(b.path)
    ctx.note("[%s] %d bodies only delegate an entity handle to a checked access path (covered by callee): %s" % (
        facts.config, len(deleg), sorted(deleg)))
    for b in targets:
        ents = [i for i in range(1, b.argc + 1) if strip_ref(b.ltype[i]) == ENTITY]
        if len(ents) != 1:
            continue
        x = ("param", ents[0], ())
        n = 0
        for d in b.defs().get(0, []):
            kind, bb, idx, dp, payload, _ = d
            positive = None
            if kind == "call":
                cname = payload["callee"].get("path", "")
                if b.ltype.get(0) == "bool" and re.search(r"(option::Option|result::Result)::<[^>]*>::is_(some|ok)$", cname) and payload["args"]:
                    # `checked_lookup(e).is_some()`: true exactly when the tested value is Some / Ok - so every construction of such a value
                    # that can reach the test must be guarded (a value that comes from a checked access path is that path's business)
                    comps = [b.arg_origin(bb, 0)]
                    flat = []
                    while comps:
                        o = comps.pop()
                        if o[0] == "phi":
                            comps.extend(o[2])
                        else:
                            flat.append(o)
                    bad_src = None
                    for o in flat:
                        if o[0] == "agg":
                            rv2 = b.blocks[o[1]]["stmts"][o[2]]["rv"]
                            if rv2.get("variant") in ("Some", "Ok") and not alive.guarded(b, o[1], x)[0]:
                                bad_src = "%s built at %s" % (rv2.get("variant"), b.loc(o[1], rv2.get("line")))
                        elif o[0] == "call":
                            tb = facts.targets(b.term(o[1])["callee"])
                            if not (alive.guarded(b, o[1], x)[0] or any(t_.path in guarded_bodies for t_ in tb)):
                                bad_src = "result of %s" % b.term(o[1])["callee"].get("path", "?")
                        elif o[0] != "const":
                            bad_src = repr(o[:2])
                    if bad_src:
                        key = "%s returns is_some/is_ok of an unguarded value #%d" % (b.path, n)
                        n += 1
                        ctx.ob(R2, key, False, b.loc(line=payload["line"]), "the tested Option/Result can be Some/Ok without is_alive(%s): %s" % (fmt_org(b, x), bad_src))
                    else:
                        ctx.ob(R2, "%s returns is_some/is_ok of a guarded value #%d" % (b.path, n), True, b.loc(line=payload["line"]))
                        n += 1
                    continue
                if b.ltype.get(0) == "bool" and not alive.is_member_call(b, bb, x):
                    positive = "bool result of " + payload["callee"].get("path", "?")
                line = payload["line"]
            else:
                rv = payload
                line = rv.get("line") or b.blocks[bb]["stmts"][idx].get("line")
                if rv["k"] == "aggregate" and rv.get("variant") in ("Some", "Ok") and not dp:
                    positive = rv["variant"]
                elif rv_const_bool(rv) is True:
                    positive = "true"
            if positive is None:
                continue
            ok, edges = alive.guarded(b, bb, x)
            key = "%s returns %s #%d" % (b.path, positive, n)
            n += 1
            ctx.ob(R2, key, ok, b.loc(line=line),
                   "" if ok else "positive result %s is constructed on a path without is_alive(%s)" % (positive, fmt_org(b, x)))


def fmt_org(b, x):
    if x[0] == "param":
        return (b.dbg_name(x[1]) or "_%d" % x[1]) + "".join("." + p for p in x[2])
    return repr(x)

ARMED = True
TECHNIQUE = "guard-dominance over the MIR call graph (derived index sinks, is_alive predicate class) + compile-fail witnesses"
LEVEL_TEXT = ("All paths of the generic MIR of every function and closure in every feature configuration: each raw component access "
              "whose index derives from an entity handle is dominated by the true-edge of an aliveness test of that same handle, and "
              "every positive result is constructed under that guard. This is the mechanism the property names, and it is decided for "
              "every history, storage kind and caller at once; the value computed by is_alive is C02's concern.")
