"""C12 - change-tracking storages report every insertion, removal and mutable access."""
from ..core import base_ty

ARMED = True
TECHNIQUE = "per-method event table checked by guard-dominance, must-pass-through and value-origin over MIR; call-graph reachability for the read-only API"
EXPLANATION = (
    "Instances are discovered by role: every self type implementing both UnprotectedStorage and Tracked (2 today) plus its "
    "SharedGetMutStorage impl and the Deref/DerefMut impls of the AccessMut type it names. R1 (event table): insert->Inserted, "
    "remove->Removed, eager get_mut/shared_get_mut->Modified: the body contains exactly one EventChannel::single_write; its event is "
    "the aggregate of the expected variant whose payload is the id parameter; its receiver is rooted in the storage's own channel; on "
    "the true-edge of the emission predicate every path to the delegating inner call passes it and it cannot be reached after the "
    "delegation; get/clean/Deref::deref contain no write. R2 (deferred variant): a tracked get_mut without a write must build an access "
    "wrapper whose emit/id/channel fields originate in emit_event()/the id parameter/the storage's channel, and whose DerefMut::deref_mut "
    "satisfies R1 for Modified on the wrapper's own fields. R3: every single_write in these bodies is unreachable once the true-edge of "
    "the emission predicate is deleted (config F makes the predicate a real field). R4: the purge path MaskedStorage::drop -> "
    "UnprotectedStorage::drop reaches remove (default body) and no tracked impl overrides drop; nothing reachable from the entity purge uses clean(); the silent bulk "
    "primitives (MaskedStorage::clear, non-delegating clean) are called only from a `clear` method, a Drop impl or a wrapper's delegating clean "
    "(the one door the property exempts by name); an overwriting insert goes through get_mut().access_mut() on every path. R5: nothing reachable over the call graph "
    "from the shared-reference API of Storage, the join impls of &Storage / &RestrictedStorage or the read items calls get_mut, "
    "shared_get_mut or single_write."
)
NOT_DECIDED = ("event order inside shrev's channel and reader bookkeeping; that callers dereference the deferred access exactly when they "
               "mutate; bulk clear() emits nothing by design R4: an overriding UnprotectedStorage::drop of a tracked storage is a row of the event table (exactly one Removed(id), own channel, under the emission switch, before the inner storage is touched).")
TRUSTED = ["rustc nightly MIR", "shrev::EventChannel::single_write appends exactly one event", "sa/ analyses"]
LEVEL_TEXT = ("Every path of each tracked storage method is checked against the event table (right variant, right id, before delegating, "
              "under the emission switch, nothing on read paths), in the configurations with and without storage-event-control. What a "
              "reader then observes depends on shrev, which is trusted.")

US = "storage::UnprotectedStorage"
SG = "storage::SharedGetMutStorage"
TRACKED = "storage::track::Tracked"
WRITE = "single_write"
EVENT = "storage::track::ComponentEvent"
TABLE = {"insert": "Inserted", "remove": "Removed", "get_mut": "Modified", "shared_get_mut": "Modified", "get": None, "clean": None}


def is_shared_ref(ty):
    import re
    m = re.match(r"^&('\w+ )?", ty)
    return bool(m and m.group(0)) and not ty[m.end():].startswith("mut ")


def configs(tier):
    return ["A", "F"] if tier == "quick" else ["A", "F", "N", "FN"]


def is_direct_write(t):
    return t["callee"].get("name") == WRITE and "EventChannel" in t["callee"].get("path", "")


def write_wrappers(facts):
    """helper methods that write exactly their event parameter to the receiver's channel on every path:
    path -> (arg index of the event, projection of the channel below the receiver)"""
    cached = getattr(facts, "_c12_wrappers", None)
    if cached is not None:
        return cached
    out = {}
    for b in facts.bodies:
        if b.kind == "Closure" or b.argc < 2 or (b.trait_item and b.trait_item.startswith((US, SG))):
            continue
        ws = [(bb, t) for bb, t in b.calls() if is_direct_write(t)]
        if len(ws) != 1:
            continue
        bb, t = ws[0]
        eo = b.arg_origin(bb, 1)
        if eo[0] == "param" and not eo[2] and eo[1] >= 2 and b.must_pass(0, [bb])[0]:
            roots = [r for r in b.roots(b.arg_origin(bb, 0)) if r[0] == "param" and r[1] == 1]
            if roots:
                out[b.path] = (eo[1] - 1, roots[0][2][:1])
    facts._c12_wrappers = out
    return out


def writes(b):
    """event-write sites of a body: direct single_write calls and calls of write-wrapper helpers (normalised to look like a direct write:
    args[0] = receiver, args[1] = the event)"""
    live = b.live_blocks()
    wr = write_wrappers(b.facts)
    out = []
    for bb, t in b.calls():
        if bb not in live:
            continue
        if is_direct_write(t):
            out.append((bb, t))
        else:
            c = t["callee"]
            p = c.get("resolved") if c.get("resolved") in wr else c.get("path")
            if p in wr:
                ai, proj = wr[p]
                out.append((bb, dict(t, args=[t["args"][0], t["args"][ai]], _wrapper=proj)))
    return out


def run(ctx):
    for r, t in [("C12-R1", "event table per tracked method"), ("C12-R2", "deferred variant emits in deref_mut only"),
                 ("C12-R3", "every event write is under the emission switch"), ("C12-R4", "entity purge reaches remove()"),
                 ("C12-R5", "read-only API never reaches a flagging accessor")]:
        ctx.rule(r, t)
    for cfg in configs(ctx.tier):
        facts = ctx.xfacts(cfg)
        run_config(ctx, facts)


def emission_guard(b, self_fields_ok=("emit", "event_emission")):
    """bool guard edges on the emission predicate: a &self bool method of the same type, or a bool field named by the wrapper"""
    def is_pred(bb, t):
        c = t["callee"]
        tb = b.facts.targets(c)
        return bool(tb) and all(x.ltype[0] == "bool" and x.argc == 1 and x.self_ty == b.self_ty for x in tb) and \
            b.arg_origin(bb, 0) == ("param", 1, ())
    edges = b.bool_guard_edges(is_pred)
    # field form: switch on self.<bool field>
    for bid, org, tv, other in b.switch_edges():
        if org[0] == "param" and org[1] == 1 and 1 <= len(org[2]) <= 3 and set(tv) == {0}:
            edges.append({"switch": bid, "call": None, "true_edge": (bid, other), "false_edge": (bid, tv[0]), "field": org[2][-1]})
    # Option form: `if let Some(ch) = self.<..>.sink (.as_mut())` - the decision was taken when the wrapper was built (C12-R2)
    for bid, org, tv, other in b.switch_edges():
        if org[0] != "discr":
            continue
        src = org[1]
        if src[0] == "call" and b.term(src[1])["callee"].get("name") in ("as_mut", "as_ref", "as_deref_mut", "as_deref", "take"):
            src = b.arg_origin(src[1], 0)
        if src[0] == "param" and src[1] == 1 and src[2] and 1 in tv:
            fe = tv.get(0, other)
            edges.append({"switch": bid, "call": None, "true_edge": (bid, tv[1]), "false_edge": (bid, fe), "field": src[2][-1], "option": True})
    return edges


def check_emitting(ctx, facts, b, variant, id_org, channel_root, delegate_pred, key, rule="C12-R1", lenient=False):
    """the R1 obligations for one emitting body"""
    ws = writes(b)
    where = b.loc()
    ctx.ob(rule, key + " exactly one event write", len(ws) == 1, where,
           "" if len(ws) == 1 else "%d single_write sites (expected exactly 1): %s" % (len(ws), [b.loc(x) for x, _ in ws]))
    if len(ws) != 1:
        return
    wbb, wt = ws[0]
    # event aggregate
    eo = b.operand_origin(wt["args"][1])
    good = False
    detail = "event operand is not a ComponentEvent aggregate (%r)" % (eo,)
    if eo[0] == "agg":
        rv = b.blocks[eo[1]]["stmts"][eo[2]]["rv"]
        if rv.get("adt") == EVENT:
            po = b.operand_origin(rv["ops"][0]) if rv["ops"] else None
            if rv.get("variant") != variant:
                detail = "writes ComponentEvent::%s, expected %s" % (rv.get("variant"), variant)
            elif po != id_org:
                detail = "event payload is not the id of the accessed slot (%r, expected %r)" % (po, id_org)
            else:
                good = True
    ctx.ob(rule, key + " event = %s(id)" % variant, good, b.loc(wbb), "" if good else detail)
    # receiver rooted in the channel field
    ro = b.operand_origin(wt["args"][0])
    roots = b.roots(ro)
    cpath = channel_root if isinstance(channel_root, tuple) else (channel_root,)
    okc = any(r[0] == "param" and r[1] == 1 and r[2][:len(cpath)] == cpath for r in roots) or \
        (wt.get("_wrapper") == (channel_root,) and any(r[0] == "param" and r[1] == 1 and not r[2] for r in roots))
    ctx.ob(rule, key + " writes the storage's own channel", okc, b.loc(wbb), "" if okc else "receiver roots %r" % (sorted(map(repr, roots)),))
    # guarded by the emission switch (R3)
    edges = emission_guard(b)
    removed = {e["true_edge"] for e in edges}
    g = bool(edges) and wbb not in b.reachable(0, removed=removed)
    if not g and lenient:
        g = "undetermined"      # a wrapper design this pack does not model (no bool flag): not decided rather than called a violation
    ctx.ob("C12-R3", key + " under emission switch", g, b.loc(wbb),
           "" if g else "event write reachable without passing the true-edge of the emission predicate")
    # before delegating, on every emitting path
    dels = [bb for bb, t in b.calls() if delegate_pred(bb, t)]
    ctx.ob(rule, key + " delegates to the inner storage", bool(dels), where, "" if dels else "no delegating call found")
    if dels and edges:
        okp = True
        why = ""
        for e in edges:
            tgt = e["true_edge"][1]
            for d in dels:
                if d in b.reachable(tgt, stop=[wbb]) and d != wbb:
                    okp = False
                    why = "on the emitting edge the inner call at %s is reachable without passing the event write: %s" % (
                        b.loc(d), b.fmt_path(b.find_path(tgt, d, avoid=[wbb])))
        for d in dels:
            if wbb in b.reachable(d) and d != wbb:
                okp = False
                why = "event is written after the inner storage was already changed (%s then %s)" % (b.loc(d), b.loc(wbb))
        ctx.ob(rule, key + " event before delegation on every emitting path", okp, b.loc(wbb), why)


def run_config(ctx, facts):
    tracked_types = {base_ty(i["self_ty"]) for i in facts.impls_of(TRACKED)}
    us_impls = [i for i in facts.impls_of(US) if base_ty(i["self_ty"]) in tracked_types]
    sg_impls = [i for i in facts.impls_of(SG) if base_ty(i["self_ty"]) in tracked_types]
    ctx.floor("C12-R1", "tracked UnprotectedStorage impls", len(us_impls), 2)
    ctx.floor("C12-R1", "tracked SharedGetMutStorage impls", len(sg_impls), 1)
    deferred_access = []
    for im in us_impls + sg_impls:
        st = base_ty(im["self_ty"])
        tr = im["trait"].rsplit("::", 1)[1]
        if "drop" in im["items"]:
            # the provided drop() goes through remove() and so through its Removed event.  An override is one more row of the event table:
            # it must itself write Removed(id) to the storage's channel, under the emission switch, BEFORE it touches the inner storage
            # (benign C12-p1 does exactly that to destroy in place; seed C12-i1 writes the event after the inner drop, so a panicking
            # destructor loses it; a silent override loses every deletion)
            db = facts.body(im["items"]["drop"])
            dkey = "%s::drop (override)" % st
            if not db:
                ctx.ob("C12-R4", dkey, "undetermined", "%s:%d" % (im["file"], im["line"]), "no body")
            elif not writes(db):
                ctx.ob("C12-R4", "%s overrides UnprotectedStorage::drop" % st, False, "%s:%d" % (im["file"], im["line"]),
                       "a tracked storage overrides drop() without writing an event: entity deletion bypasses the Removed event of remove()")
            else:
                def ddelegate(bb, t, trait=im["trait"], db=db):
                    c = t["callee"]
                    return c.get("path") in ("%s::drop" % trait, "%s::remove" % trait) and db.arg_origin(bb, 0)[:2] == ("param", 1)
                check_emitting(ctx, facts, db, "Removed", ("param", 2, ()), "channel", ddelegate, dkey, rule="C12-R4")
        for m, variant in TABLE.items():
            if m not in im["items"]:
                continue
            b = facts.body(im["items"][m])
            key = "%s::%s" % (st, m)
            if not b:
                ctx.ob("C12-R1", key, "undetermined", "", "no body")
                continue
            ws = writes(b)

            def delegate(bb, t, m=m, trait=im["trait"]):
                c = t["callee"]
                return c.get("path") == "%s::%s" % (trait, m) and b.arg_origin(bb, 0)[:2] == ("param", 1)
            if variant is None:
                ctx.ob("C12-R1", key + " writes no event", not ws, b.loc(), "" if not ws else "read/cleanup path writes an event at %s" % b.loc(ws[0][0]))
                continue
            if m == "get_mut" and not ws:
                # deferred variant
                acc = im["assoc"].get("AccessMut", "")
                deferred_access.append((im, b, base_ty(acc)))
                continue
            check_emitting(ctx, facts, b, variant, ("param", 2, ()), "channel", delegate, key)
    ctx.floor("C12-R2", "deferred tracked storages", len(deferred_access), 1)
    for im, b, acc in deferred_access:
        st = base_ty(im["self_ty"])
        key = "%s::get_mut (deferred)" % st
        adt = facts.adts.get(acc)
        if not adt:
            ctx.ob("C12-R2", key, False, b.loc(), "get_mut writes no event and its AccessMut type %s is not a local wrapper" % acc)
            continue
        # wrapper construction in get_mut
        built = None
        for bid, blk in b.blocks.items():
            for s in blk["stmts"]:
                rv = s["rv"]
                if rv["k"] == "aggregate" and rv.get("adt") == acc:
                    built = (bid, s, rv)
        if not built:
            ctx.ob("C12-R2", key, False, b.loc(), "get_mut does not build its access wrapper %s" % acc)
            continue
        # leaf fields of the wrapper, looking through private structs nested in it (`pending: PendingModification { events, armed, id }`)
        def leaves(adt_, prefix, rv_, at_, depth=0):
            out = []
            fl = adt_["variants"][0]["fields"]
            for i, f in enumerate(fl):
                o = b.operand_origin(rv_["ops"][i], at=at_) if rv_ is not None and i < len(rv_["ops"]) else None
                sub = facts.adts.get(base_ty(f["ty"]))
                if sub and sub.get("kind") == "Struct" and len(sub.get("variants", [])) == 1 and depth < 2 and base_ty(f["ty"]).split("::")[0] in ("storage", "world", "join", "saveload", "changeset"):
                    rv2, at2 = None, None
                    if o and o[0] == "agg":
                        rv2 = b.blocks[o[1]]["stmts"][o[2]]["rv"]
                        at2 = (o[1], o[2])
                        if rv2.get("adt") != base_ty(f["ty"]):
                            rv2 = None
                    out += leaves(sub, prefix + (f["name"],), rv2, at2, depth + 1)
                else:
                    out.append((prefix + (f["name"],), f["ty"], o))
            return out
        rv = built[2]
        lf = leaves(adt, (), rv, (built[0], b.blocks[built[0]]["stmts"].index(built[1])))
        fo = {pth: o for pth, ty_, o in lf}
        bool_fields = [pth for pth, ty_, o in lf if ty_ == "bool"]
        id_fields = [pth for pth, ty_, o in lf if ty_ == "u32"]
        chan_fields = [pth for pth, ty_, o in lf if "EventChannel" in ty_]
        ok_emit = False
        for f in bool_fields:
            o = fo.get(f)
            if o and o[0] == "call":
                tb = facts.targets(b.term(o[1])["callee"])
                ok_emit = bool(tb) and all(x.ltype[0] == "bool" and x.self_ty == b.self_ty for x in tb)
        opt_chan = [pth for pth, ty_, o in lf if "EventChannel" in ty_ and "option::Option<" in ty_]
        alt_design = not bool_fields and bool(opt_chan)
        if alt_design:
            # the emission decision is encoded in the wrapper itself: an Option<&mut channel> that is Some exactly when emission was on.
            # Decided if visible: every Some(..) that can reach that field is built under the true-edge of the emission predicate (or of a
            # bool whose origin is that predicate); otherwise the instance is undetermined - a different but possibly correct design.
            ok_emit = "undetermined"
            eg = emission_guard(b)
            for pth in opt_chan:
                o = fo.get(pth)
                comps = [o] if o else []
                flat = []
                while comps:
                    x_ = comps.pop()
                    if x_ and x_[0] == "phi":
                        comps.extend(x_[2])
                    elif x_:
                        flat.append(x_)
                somes = [x_ for x_ in flat if x_[0] == "agg" and b.blocks[x_[1]]["stmts"][x_[2]]["rv"].get("variant") == "Some"]
                others = [x_ for x_ in flat if x_ not in somes and not (x_[0] == "agg" and b.blocks[x_[1]]["stmts"][x_[2]]["rv"].get("variant") == "None")]
                if somes and not others:
                    pred_edges = list(eg)
                    # a local bool that holds the predicate's result
                    for bid_, org_, tv_, other_ in b.switch_edges():
                        if org_[0] == "call" and set(tv_) == {0}:
                            tb_ = facts.targets(b.term(org_[1])["callee"])
                            if tb_ and all(x.ltype[0] == "bool" and x.self_ty == b.self_ty for x in tb_):
                                pred_edges.append({"true_edge": (bid_, other_)})
                    removed_ = {e["true_edge"] for e in pred_edges}
                    if pred_edges and all(x_[1] not in b.reachable(0, removed=removed_) for x_ in somes):
                        ok_emit = True
        ctx.ob("C12-R2", key + " wrapper.emit = emit_event()", ok_emit, b.loc(built[0], built[1].get("line")),
               "" if ok_emit else "the wrapper's emission flag does not come from the storage's emission predicate (%r)" % {f: fo.get(f) for f in bool_fields})
        ok_id = any(fo.get(f) == ("param", 2, ()) for f in id_fields)
        if not ok_id and alt_design and all(fo.get(f) is None for f in id_fields):
            ok_id = "undetermined"
        ctx.ob("C12-R2", key + " wrapper.id = id", ok_id, b.loc(line=built[1].get("line")), "" if ok_id else "wrapper id origin %r" % {f: fo.get(f) for f in id_fields})
        ok_ch = any((fo.get(f) or ("x",))[:3] == ("param", 1, ("channel",)) or
                    any(r[:3] == ("param", 1, ("channel",)) for r in (b.roots(fo[f]) if fo.get(f) else [])) for f in chan_fields)
        if not ok_ch and alt_design and all(fo.get(f) is None for f in chan_fields):
            ok_ch = "undetermined"
        ctx.ob("C12-R2", key + " wrapper.channel = storage channel", ok_ch, b.loc(line=built[1].get("line")), "" if ok_ch else "wrapper channel origin %r" % {f: fo.get(f) for f in chan_fields})
        # DerefMut / Deref of the wrapper
        dm = [i for i in facts.impls_of("std::ops::DerefMut") if base_ty(i["self_ty"]) == acc]
        dr = [i for i in facts.impls_of("std::ops::Deref") if base_ty(i["self_ty"]) == acc]
        ctx.anchor("C12-R2", "DerefMut for %s" % acc, dm)
        for i in dm:
            mb = facts.body(i["items"]["deref_mut"])
            if not mb:
                continue
            idf = id_fields[0] if id_fields else ("id",)
            chf = chan_fields[0] if chan_fields else ("channel",)

            def delegate2(bb, t):
                return t["callee"].get("name") in ("access_mut", "deref_mut") and mb.arg_origin(bb, 0)[:2] == ("param", 1)
            check_emitting(ctx, facts, mb, "Modified", ("param", 1, tuple(idf)), tuple(chf), delegate2, "%s::deref_mut" % acc, rule="C12-R2", lenient=alt_design)
        for i in dr:
            rb = facts.body(i["items"]["deref"])
            if rb:
                ws = writes(rb)
                ctx.ob("C12-R2", "%s::deref writes no event" % acc, not ws, rb.loc(), "" if not ws else "shared deref writes an event")
    # R4: purge path
    md = [b for b in facts.methods_named("storage::MaskedStorage", "drop") if not b.trait_item and b.argc == 2]
    ctx.anchor("C12-R4", "MaskedStorage::drop(id)", md)
    for b in md:
        ok = any(t["callee"].get("path") == US + "::drop" for _, t in b.calls())
        ctx.ob("C12-R4", "MaskedStorage::drop -> UnprotectedStorage::drop", ok, b.loc(), "" if ok else "purge does not go through the storage's drop hook")
    dflt = facts.body(US + "::drop")
    ctx.anchor("C12-R4", "default UnprotectedStorage::drop body", dflt)
    if dflt:
        rem = [bb for bb, t in dflt.calls() if t["callee"].get("path") == US + "::remove" and dflt.arg_origin(bb, 1) == ("param", 2, ())]
        ok, wit = dflt.must_pass(0, rem)
        ctx.ob("C12-R4", "default drop() calls remove(id) on every path", ok and bool(rem), dflt.loc(),
               "" if ok and rem else "default drop() can return without remove(id): %s" % dflt.fmt_path(wit))
    r4_bulk(ctx, facts)
    r4_who_clears(ctx, facts)
    r6(ctx, facts)
    r5(ctx, facts)


def r4_bulk(ctx, facts):
    """entity deletion must take components out one by one (remove() is the only place a Removed event is written): nothing reachable
    from the purge entry point may use the silent bulk path clean()/clear()"""
    ad = [b for b in facts.bodies if b.trait_item == "storage::AnyStorage::drop" and base_ty(b.self_ty or "") == "storage::MaskedStorage"]
    ctx.anchor("C12-R4", "<MaskedStorage<T> as AnyStorage>::drop", ad)
    for b in ad:
        seen = facts.reach([b], edge_filter=lambda bd, bb, t: not t["callee"].get("trait") or bool(t["callee"].get("resolved")) or t["callee"].get("path", "").startswith("storage::"))
        bulk = []
        for p in seen:
            for x in facts.by_path[p]:
                if x.trait_item and x.trait_item.startswith(US + "::"):
                    continue
                for bb, t in x.calls():
                    if t["callee"].get("path") == US + "::clean":
                        bulk.append("%s at %s" % (x.path, x.loc(bb)))
        ctx.ob("C12-R4", "entity deletion never takes the silent bulk path (clean/clear)", not bulk, b.loc(),
               "" if not bulk else "deleting entities can reach %s: components disappear without a Removed event" % bulk[:3])


def r4_who_clears(ctx, facts):
    """the silent bulk path has exactly one user-facing door: the operation the property exempts by name (`clear`).  Every direct caller of
    the non-delegating bulk primitives (MaskedStorage::clear, UnprotectedStorage::clean on a MaskedStorage's inner storage) is a `clear`
    method, a Drop impl, or the wrapper's own delegating clean; any other function that takes components out that way (a `remove_many` /
    `retain` fast path 'when nothing survives') removes individually requested components without a Removed event."""
    callers = facts.callers()
    bad = []
    n = 0
    for p, lst in callers.items():
        tb = [x for x in facts.by_path.get(p, [])]
        is_mclear = any(x.name == "clear" and not x.trait_item and base_ty(x.self_ty or "") == "storage::MaskedStorage" for x in tb)
        is_clean = any(x.trait_item == US + "::clean" for x in tb) or p == US + "::clean"
        if not (is_mclear or is_clean):
            continue
        for cb, bb in lst:
            if cb.kind == "Closure":
                continue
            n += 1
            fine = cb.name in ("clear", "clean") or (cb.trait_item or "").endswith("Drop::drop") or (cb.trait_item or "") == US + "::clean"
            if not fine:
                bad.append("%s at %s" % (cb.path, cb.loc(bb)))
    ctx.ob("C12-R4", "only clear() / Drop reach the silent bulk path", not bad and n > 0, "",
           "" if not bad else "the bulk path (no Removed events) is taken by %s: components removed on request vanish from a reader's view of the storage" % sorted(set(bad))[:4])


def r6(ctx, facts):
    """overwriting insert: on the occupied edge every path goes through the storage's mutable accessor (that is what flags the overwrite)"""
    bs = [b for b in facts.methods_named("storage::Storage", "insert") if not b.trait_item]
    bs += [b for b in facts.methods_named("storage::entry::OccupiedEntry", "insert")]
    ctx.floor("C12-R4", "overwriting insert bodies", len(bs), 2)
    for b in bs:
        gm = [bb for bb, t in b.calls() if t["callee"].get("path") == US + "::get_mut" or
              any(x.name == "get_mut" and base_ty(x.self_ty or "") == "storage::entry::OccupiedEntry" for x in facts.targets(t["callee"]))]
        am = [bb for bb, t in b.calls() if t["callee"].get("name") == "access_mut"]
        if base_ty(b.self_ty or "") == "storage::Storage":
            edges = b.bool_guard_edges(lambda gbb, gt: gt["callee"].get("name") == "contains" and "BitSet" in gt["callee"].get("path", ""))
            starts = [e["true_edge"][1] for e in edges]
        else:
            starts = [0]
        ok = bool(gm) and bool(am) and bool(starts)
        why = "no mutable accessor on the overwrite path"
        for st in starts:
            o1, w1 = b.must_pass(st, gm)
            o2, w2 = b.must_pass(st, am)
            if not (o1 and o2):
                ok = False
                why = "an overwrite can complete without get_mut().access_mut() (path %s): no Modified event is written for it" % b.fmt_path(w1 or w2)
        ctx.ob("C12-R4", "%s overwrites through get_mut().access_mut() on every path" % b.path, ok, b.loc(), "" if ok else why)


def r5(ctx, facts):
    roots = []
    for b in facts.bodies:
        st = base_ty(b.self_ty) if b.self_ty else ""
        first = b.ltype.get(1, "")
        shared_self = is_shared_ref(first)
        if st == "storage::Storage" and b.argc >= 1 and shared_self and not b.trait_item and b.name not in ("not",):
            roots.append(b)
        elif b.trait_item and b.trait_item.split("::")[-2] in ("Join", "LendJoin", "ParJoin") and b.self_ty and \
                is_shared_ref(b.self_ty) and base_ty(b.self_ty) in ("storage::Storage", "storage::restrict::RestrictedStorage"):
            roots.append(b)
        elif st == "storage::restrict::PairedStorageRead" and b.name in ("get", "get_other"):
            roots.append(b)
        elif st in ("storage::restrict::PairedStorageWriteExclusive", "storage::restrict::PairedStorageWriteShared") and b.name in ("get", "get_other"):
            roots.append(b)
    ctx.floor("C12-R5", "read-only API roots", len(roots), 12)
    forbidden = lambda b: (b.trait_item in (US + "::get_mut", SG + "::shared_get_mut")) or bool(writes(b))
    seen = facts.reach(roots)
    bad = [p for p in seen if any(forbidden(x) for x in facts.by_path[p])]
    for r in roots:
        pass
    ctx.ob("C12-R5", "read-only API reaches no flagging accessor", not bad, "",
           "" if not bad else "; ".join(facts.chain(seen, p) for p in bad[:4]))
    ctx.note("[%s] R5: %d roots, %d bodies reachable" % (facts.config, len(roots), len(seen)))
