"""C18 - derived component and save/load conversions behave as field-wise definitions (enumerated family)."""
from .. import extract
from ..core import Facts

ARMED = True
TECHNIQUE = "value-origin over the MIR of macro-GENERATED code for an enumerated family of derive inputs, plus type-equality obligations compiled with the family"
EXPLANATION = (
    "The derive macros are program transformers; the quantifier is over programs. What is decided is the generated code for an enumerated family "
    "of shapes produced by shapes/gen.py from the grammar the property names (named / tuple / nested / generic structs; enums with unit, tuple and "
    "named variants; skipped fields and forwarded attributes - including several forwarded attributes on one field; and, throughout, SAME-TYPED "
    "sibling fields, the only place a field mix-up type-checks; wide shapes with 11-12 same-typed fields, where positional names sort differently as "
    "strings than as numbers; field and variant names declared in non-alphabetical order; fields of array / tuple type): about 60 shapes in quick, 290 in thorough. The family is compiled (type-checked only) "
    "against the current specs + specs-derive with the fact driver; a member that stops compiling is reported with the compiler's message. R1: for "
    "every generated convert_into / convert_from, field (or variant field) i of the output aggregate originates in exactly one conversion call whose "
    "callee's Self is the declared type of field i and whose argument is field i of the input; skipped fields originate in clone / move of field i; "
    "enum arms build variant k from variant k; a field of array / tuple type that is converted element by element instead of by one whole-field call is "
    "reported as undetermined (element placement is index arithmetic inside generated closures). R2 (storage selection): the family contains type-equality obligations "
    "`<S as Component>::Storage == requested` for no attribute (DenseVecStorage<S>), a bare storage name, an explicit <Self> argument, a storage with "
    "two type arguments, and a generic component; they are checked by rustc while compiling the family. R3 (wire form of the generated data type): in the "
    "serde-derived Serialize::serialize of every `<Name>SaveloadData` of the family (its MIR is part of the family's facts) each enum variant k is written by "
    "exactly one serialize_{unit,newtype,tuple,struct}_variant call with the constant index k and of the kind its field list calls for, structs by "
    "serialize_struct / serialize_tuple_struct / serialize_newtype_struct, and the number of serialize_field calls equals the number of fields "
    "(shapes that forward serde(skip..) themselves are exempt from the count) - an attribute the macro puts on the data type (untagged, flatten, skip) "
    "that makes same-shaped variants indistinguishable on load or drops a field shows here."
)
NOT_DECIDED = ("all programs of the grammar (only the enumerated family); round-trip VALUE equality; what forwarded serde attributes do at run time R4 (order): in every generated convert_into / convert_from the calls into the fields' own code (a field's conversion, the clone of a passed-through field) run in declaration order - ids allocates markers as it is called and a failing field leaves done what ran before it. The component shapes request their storage with other attributes before and after #[storage(..)].")
TRUSTED = ["rustc nightly macro expansion, type checking and MIR", "serde_derive", "sa/ analyses"]
LEVEL_TEXT = ("Enumerated family, not all programs: for every member the generated conversions are checked field by field on their MIR, and storage "
              "selection by type equality. The pinned suite compiles neither specs-derive's save/load derive nor src/saveload.")


def last(ty):
    return ty.split("<")[0].split("::")[-1].strip()


def run(ctx):
    ctx.rule("C18-R1", "generated conversions are field-wise: output field i <- conversion of input field i with field i's own type")
    ctx.rule("C18-R4", "generated conversions run the fields' own code (conversion, clone of a passed-through field) in declaration order")
    ctx.rule("C18-R2", "derive(Component) selects the requested storage (type-equality obligations inside the family)")
    ctx.rule("C18-R3", "the generated data type's wire form names the variant and carries every field")
    d, man = extract.shapes_facts("quick" if ctx.tier == "quick" else "thorough")
    ctx.bodies_analysed["shapes-" + ctx.tier] = 0 if d is None else len(d["bodies"])
    if d is None:
        ctx.ob("C18-R2", "the family compiles against the current derive macros", False, "shapes/gen.py",
               "a member of the family no longer compiles (storage selection mismatch, lost forwarded attribute, or broken generated code): " + man["error"][-1500:],
               config="shapes")
        return
    ctx.ob("C18-R2", "the family compiles against the current derive macros (incl. %d storage-selection equalities)" % len(man["components"]), True,
           "shapes/gen.py", config="shapes")
    facts = Facts(d)
    n = 0
    for sh in man["shapes"]:
        for direction in ("convert_into", "convert_from"):
            b = facts.body("<%s%s as specs::saveload::ConvertSaveload<MA>>::%s" % (sh["name"], generic_suffix(sh), direction))
            key = "%s::%s" % (sh["name"], direction)
            if b is None:
                ctx.ob("C18-R1", key, False, "", "no generated body found", config="shapes")
                continue
            n += 1
            out_adt = sh["name"] + ("SaveloadData" if direction == "convert_into" else "")
            variants = sh["variants"] if sh["kind"] == "enum" else [{"name": None, "fields": sh["fields"]}]
            problems = []
            undet = []
            order_problems = []
            for v in variants:
                aggs = []
                for bid, blk in b.blocks.items():
                    if blk["cleanup"]:
                        continue
                    for st in blk["stmts"]:
                        rv = st["rv"]
                        if rv["k"] == "aggregate" and last(rv.get("adt", "")) == out_adt and (v["name"] is None or rv.get("variant") == v["name"]):
                            aggs.append((bid, rv))
                if len(aggs) != 1:
                    problems.append("%d output aggregates for %s" % (len(aggs), v["name"] or out_adt))
                    continue
                bid, rv = aggs[0]
                if len(rv["ops"]) != len(v["fields"]):
                    problems.append("%s has %d fields, expected %d" % (v["name"] or out_adt, len(rv["ops"]), len(v["fields"])))
                    continue
                prefix = ("as " + v["name"],) if v["name"] else ()
                effects = []     # (field position, block of the call into the field's own code: its conversion, or the clone of a skipped field)
                for i, f in enumerate(v["fields"]):
                    o = b.operand_origin(rv["ops"][i])
                    want_in = ("param", 1, prefix + (f["name"],))
                    deps = b.deps(o)
                    convs = [dd for dd in deps if dd[0] == "call" and b.term(dd[1])["callee"].get("path") == "specs::saveload::ConvertSaveload::" + direction]
                    if f["skip"]:
                        if convs:
                            problems.append("skipped field %s is converted" % f["name"])
                        src_ok = o == want_in or any(dd[0] == "call" and b.term(dd[1])["callee"].get("name") == "clone" and b.arg_origin(dd[1], 0) == want_in for dd in deps | {o})
                        if not src_ok:
                            problems.append("skipped field %s does not come from input field %s (%r)" % (f["name"], f["name"], o))
                        for dd in deps | {o}:
                            if dd[0] == "call" and b.term(dd[1])["callee"].get("name") == "clone" and b.arg_origin(dd[1], 0) == want_in:
                                effects.append((i, dd[1]))
                        continue
                    if len(convs) != 1:
                        composite = f["ty"].strip().startswith(("[", "("))
                        if composite:
                            # an array / tuple field converted element by element (a derive that learnt to look inside): whether every element
                            # keeps its place is index arithmetic inside generated closures - not decided, and a correct element-wise
                            # derive looks the same
                            undet.append("field %s of composite type %s is not converted by one whole-field conversion call (%d calls): element "
                                         "placement not decided" % (f["name"], f["ty"], len(convs)))
                        else:
                            problems.append("field %s derives from %d conversion calls" % (f["name"], len(convs)))
                        continue
                    cb = convs[0][1]
                    effects.append((i, cb))
                    c = b.term(cb)["callee"]
                    ain = b.arg_origin(cb, 0)
                    if ain != want_in:
                        problems.append("output field %s is converted from input %r (expected field %s of the same %s)" % (f["name"], ain, f["name"], "variant" if v["name"] else "struct"))
                    if last(c.get("self_ty") or "") != last(f["ty"]):
                        problems.append("field %s (declared %s) is converted with %s's conversion" % (f["name"], f["ty"], c.get("self_ty")))
                    if b.arg_origin(cb, 1)[:2] != ("param", 2) and not any(dd[0] == "param" and dd[1] == 2 for dd in b.deps(b.arg_origin(cb, 1))):
                        problems.append("field %s is not converted with the id mapping passed in" % f["name"])
                # R4: a field-wise definition runs the fields' own code (conversions, clones of passed-through fields) in declaration order.
                # The order is observable: `ids` allocates markers as it is called (serialize_recursive), and when one field's code fails or
                # panics, what was already done for the others stays done (seed C18-i1: converted fields first, passed-through ones last).
                for (i1, b1) in effects:
                    for (i2, b2) in effects:
                        if i1 < i2 and b1 != b2:
                            t2 = b.term(b2).get("target")
                            fwd = b2 in b.reachable(b.term(b1).get("target")) if b.term(b1).get("target") is not None else False
                            back = t2 is not None and b1 in b.reachable(t2)
                            if not fwd or back:
                                order_problems.append("%s: the code of field %s runs before that of field %s, which is declared first" % (
                                    key, v["fields"][i2]["name"], v["fields"][i1]["name"]))
                if v["name"] and not v["fields"]:
                    # unit variant: built only in its own arm
                    sw = [(sbb, tv, other) for sbb, org, tv, other in b.switch_edges() if org == ("discr", ("param", 1, ()))]
                    if sw:
                        sbb, tv, other = sw[0]
                        k = [x["name"] for x in sh["variants"]].index(v["name"])
                        tgt = tv.get(k, other)
                        if bid in b.reachable(0, removed={(sbb, tgt)}):
                            problems.append("unit variant %s is produced for another input variant" % v["name"])
            ctx.ob("C18-R1", key, False if problems else ("undetermined" if undet else True), b.loc(), "; ".join((problems or undet)[:4]), config="shapes")
            if not problems:
                ctx.ob("C18-R4", key + " runs the fields' code in declaration order", not order_problems, b.loc(), "; ".join(order_problems[:3]), config="shapes")
    ctx.floor("C18-R1", "generated conversion bodies checked", n, 60, config="shapes")
    r3(ctx, facts, man)


VARIANT_CALLS = {"serialize_unit_variant": "unit", "serialize_newtype_variant": "newtype", "serialize_tuple_variant": "tuple", "serialize_struct_variant": "struct"}


def r3(ctx, facts, man):
    """The round trip of a derived type goes through the wire form of its generated `<Name>SaveloadData`.  Field-wise means the
    data type says which variant it holds and writes each field: in the serde-derived Serialize::serialize of the data type (its MIR
    is part of the family's facts) every variant k of an enum shape is written by exactly one serialize_*_variant call carrying the
    constant index k and of the kind its field list calls for, and the number of serialize_field calls is the number of fields of the
    multi-field variants; a struct shape is written by serialize_struct / serialize_tuple_struct / serialize_newtype_struct with one
    serialize_field per field.  (An attribute such as serde(untagged), flatten or skip on the generated type makes two variants with
    the same payload shape indistinguishable on load, or drops a field.)  Shapes that forward serde(skip..) themselves are exempt
    from the field count."""
    import re
    n = 0
    for sh in man["shapes"]:
        pre = "Serialize for %sSaveloadData<" % sh["name"]
        bs = [b for b in facts.bodies if pre in b.path and b.path.endswith("::serialize")]
        key = "%sSaveloadData wire form" % sh["name"]
        if len(bs) != 1:
            ctx.ob("C18-R3", key, False, "", "%d Serialize impls found for the generated data type" % len(bs), config="shapes")
            continue
        b = bs[0]
        n += 1
        calls = [(bb, t) for bb, t in b.calls() if isinstance(t["callee"], dict)]
        names = [t["callee"].get("name") for bb, t in calls]
        nfield = sum(1 for x in names if x == "serialize_field")
        forwards = bool(sh.get("forwards_serde_skip"))
        problems = []
        if sh["kind"] == "enum":
            seen = {}
            for bb, t in calls:
                k = VARIANT_CALLS.get(t["callee"].get("name"))
                if k and len(t["args"]) >= 3:
                    m = re.match(r"^(\d+)_u32$", str(t["args"][2].get("const", "")) if isinstance(t["args"][2], dict) else "")
                    if m:
                        seen.setdefault(int(m.group(1)), []).append(k)
            want_fields = 0
            for k, v in enumerate(sh["variants"]):
                nf = len(v["fields"])
                named = bool(v["fields"]) and not v["fields"][0]["name"].isdigit()
                kind = "unit" if nf == 0 else ("struct" if named else ("newtype" if nf == 1 else "tuple"))
                if kind in ("struct", "tuple"):
                    want_fields += nf
                got = seen.get(k, [])
                if forwards and kind in ("struct", "tuple", "newtype"):
                    if len(got) != 1:
                        problems.append("variant %s (index %d) is written by %d variant-naming calls" % (v["name"], k, len(got)))
                elif got != [kind]:
                    problems.append("variant %s (index %d, %s) is written by %s instead of one serialize_%s_variant call: on load it is not told apart "
                                    "by name from a variant with the same payload shape" % (v["name"], k, kind, got or "no variant-naming call", kind))
            if not forwards and nfield != want_fields:
                problems.append("%d fields are written, the variants have %d" % (nfield, want_fields))
        else:
            nf = len(sh["fields"])
            want = "serialize_struct" if sh["kind"] == "named" else ("serialize_newtype_struct" if nf == 1 else "serialize_tuple_struct")
            if forwards:
                want = None
            if want and names.count(want) != 1:
                problems.append("the data struct is not written by one %s call" % want)
            if want and want != "serialize_newtype_struct" and nfield != nf:
                problems.append("%d fields are written, the struct has %d" % (nfield, nf))
        ctx.ob("C18-R3", key, not problems, b.loc(), "; ".join(problems[:3]), config="shapes")
    ctx.floor("C18-R3", "generated data types whose Serialize impl was read", n, 30, config="shapes")


def generic_suffix(sh):
    if sh["name"] in ("G1", "G3", "G4", "G5"):
        return "<T>"
    if sh["name"] == "G2":
        return "<A, B>"
    return ""
