"""C15 - loading into a populated world merges by marker; marker ids stay unique (clause)."""
import json
from ..core import base_ty, op_place as core_op_place
from ._saveload import closure_bodies_in, de_bodies, members

ARMED = True
TECHNIQUE = "guard-dominance and must-pass-through over the MIR of mark / retrieve_entity and the generated deserialize_entity bodies (feature configuration with serde)"
EXPLANATION = (
    "Decided (configuration F, which the pinned suite never compiles): R1 (mark keeps an existing marker): MarkerAllocator::allocate(entity, None) is "
    "reachable from mark() only inside the closure handed to StorageEntry::or_insert_with (the vacant case); mark returns None exactly on the Err "
    "edge of storage.entry(entity) (dead entity). R2 (merge by marker): in retrieve_entity the calls that create (EntitiesRes::create, allocate(_, "
    "Some(id)), storage.insert) are unreachable on the path where both the id lookup and the marker-component fetch succeeded; that path calls "
    "Marker::update and returns the looked-up entity; on every other path exactly one entity is created, allocate is given the marker's id and the "
    "new marker is inserted for the created entity, which is returned. R3 (per position): every generated deserialize_entity of arity n branches on "
    "component i of the data and on its Some edge calls insert(member i, the entity, convert_from(component i)), on its None edge remove(member i, "
    "the entity) - same member, same entity, every path. R4 (allocator impls): allocate overwrites mapping[id] = entity on every path; on the "
    "explicit-id path the counter ends above the id (it is stored id + 1 or a max with it, or the edge taken implies counter > id) and never moves "
    "backwards (a store derived from the id is guarded by an edge that implies counter <= id, or is max(counter, ..) / counter + c) - a small "
    "interval argument over the branch conditions, first by pattern and, where the branches of allocate() were merged (`id.unwrap_or(counter)`), by a "
    "path-wise difference-bound evaluation (values as id+k / counter+k / max, d = id - counter as an interval refined by each comparison taken); "
    "shapes it cannot relate are undetermined, not violations."
)
NOT_DECIDED = ("uniqueness of marker ids as a theorem over histories (R4 decides the two counter invariants it rests on: past an explicit id, never "
               "backwards); overflow of the counter; interleavings with entity deletion and allocator maintenance R4 also: Clone::clone of every MarkerAllocator implementor builds its result field by field from the same field of self.")
TRUSTED = ["rustc nightly MIR", "sa/ analyses"]
LEVEL_TEXT = ("Clause only: the structure that makes loading a merge instead of a duplication (existing marker kept, entity created only when lookup or "
              "marker fetch failed, per-position insert/remove) is decided on all paths. Id uniqueness across histories is NOT decided.")

RE = "saveload::marker::MarkerAllocator::retrieve_entity"
ALLOC = "saveload::marker::MarkerAllocator::allocate"


def run(ctx):
    for r, t in [("C15-R1", "mark() allocates only when the entity has no marker"), ("C15-R2", "retrieve_entity creates only when lookup or marker fetch failed"),
                 ("C15-R3", "deserialize_entity inserts present and removes absent components, position by position"),
                 ("C15-R4", "allocate() (re)points the id at the entity and moves the counter past an explicit id")]:
        ctx.rule(r, t)
    for cfg in (["F"] if ctx.tier == "quick" else ["F", "FN"]):
        facts = ctx.xfacts(cfg)
        r1(ctx, facts)
        r2(ctx, facts)
        r3(ctx, facts)
        r4(ctx, facts)


def ret_variants(b, r):
    """variants (Some / None / ...) the returned Option / Result can have at return block r, by the definitions of _0 reaching it"""
    out = set()
    rd, entry = b.reaching_defs(0, b.end(r))
    for bb, idx in rd:
        if idx < 0:
            c = b.term(bb)["callee"]
            if c.get("path") == "std::ops::FromResidual::from_residual":
                out.add("None" if "option::Option" in b.ltype.get(0, "").split("<")[0] else "Err")
            else:
                out.add("?")
            continue
        st = b.blocks[bb]["stmts"][idx]
        rv = st["rv"]
        if st["dst"]["proj"]:
            out.add("?")
        elif rv["k"] == "aggregate" and rv.get("variant"):
            out.add(rv["variant"])
        elif rv["k"] == "use":
            o = b.operand_origin(rv["ops"][0], at=(bb, idx))
            alts = o[2] if o[0] == "phi" else (o,)
            for a in alts:
                if a[0] == "agg":
                    out.add(b.blocks[a[1]]["stmts"][a[2]]["rv"].get("variant") or "?")
                else:
                    out.add("?")
        else:
            out.add("?")
    return out


def r1(ctx, facts):
    b = facts.body("saveload::marker::MarkerAllocator::mark")
    ctx.anchor("C15-R1", "MarkerAllocator::mark (provided)", b)
    if not b:
        return
    allocs = [(bb, t) for bb, t in b.real_calls() if t["callee"].get("path") == ALLOC]
    ctx.anchor("C15-R1", "mark() can allocate a marker", allocs)
    # every allocation happens inside a closure that is handed to StorageEntry::or_insert_with (which runs it for a vacant entry only)
    fed = {}
    for bb, t in b.real_calls():
        if t["callee"].get("name") == "or_insert_with" and "StorageEntry" in t["callee"].get("path", ""):
            co = b.arg_origin(bb, 1)
            if co[0] == "agg":
                fed[b.blocks[co[1]]["stmts"][co[2]]["rv"].get("closure")] = bb
    direct, ok, why = [], bool(allocs), "mark() never allocates"
    for bb, t in allocs:
        stack = b.blocks[bb].get("stack") or (b.path,)
        inside = [p for p in stack if p in fed]
        if not inside:
            direct.append(b.loc(bb))
            continue
        none_id = b.arg_origin(bb, 2)[0] in ("agg", "const")
        ent = b.arg_origin(bb, 1) == ("param", 2, ())
        if not (none_id and ent):
            ok = False
            why = "the vacant-entry closure allocates a fresh id (None): %s; for the entity being marked: %s" % (none_id, ent)
    ctx.ob("C15-R1", "mark() never allocates unconditionally", not direct, b.loc(),
           "" if not direct else "allocate() is called in mark() at %s outside a closure handed to StorageEntry::or_insert_with: an existing marker would be replaced" % direct)
    ctx.ob("C15-R1", "mark() allocates only in the vacant-entry closure", ok and not direct, b.loc(), "" if ok and not direct else why)
    entries = [bb for bb, t in b.real_calls() if t["callee"].get("name") == "entry" and "storage::" in t["callee"].get("path", "")]
    ves = b.variant_edges(lambda so: so[0] == "call" and so[1] in entries and not so[2])
    errs = {ve["edges"]["Err"] for ve in ves if "Err" in ve["edges"]}
    okn = bool(errs)
    whyn = "" if okn else "no match on the result of storage.entry(entity)"
    if okn:
        live_no_err = b.reachable(0, removed=errs)
        after_err = set()
        for e in errs:
            after_err |= b.reachable(e[1])
        for r in b.returns():
            if r not in b.live_blocks():
                continue
            vs = ret_variants(b, r)
            if "?" in vs:
                okn, whyn = "undetermined", "cannot tell which variant mark() returns at %s" % b.loc(r)
            if "None" in vs and r in live_no_err and vs == {"None"}:
                okn, whyn = False, "mark() can return None for an entity whose entry() lookup succeeded (a live entity)"
            if "Some" in vs and vs == {"Some"} and r in after_err and r not in live_no_err:
                okn, whyn = False, "mark() returns Some on the Err edge of storage.entry(entity) (a dead entity)"
    ctx.ob("C15-R1", "mark() returns None exactly for a dead entity", okn, b.loc(), whyn)


def r2(ctx, facts):
    b = facts.body(RE)
    ctx.anchor("C15-R2", "MarkerAllocator::retrieve_entity (provided)", b)
    if not b:
        return
    look = [bb for bb, t in b.calls() if t["callee"].get("path") == "saveload::marker::MarkerAllocator::retrieve_entity_internal"]
    getm = [bb for bb, t in b.calls() if t["callee"].get("name") == "get_mut" and "storage::Storage" in t["callee"].get("path", "")]
    creates = [bb for bb, t in b.calls() if t["callee"].get("path") == "world::entity::EntitiesRes::create"]
    allocs = [bb for bb, t in b.calls() if t["callee"].get("path") == ALLOC]
    inserts = [bb for bb, t in b.calls() if t["callee"].get("name") == "insert" and "storage::Storage" in t["callee"].get("path", "")]
    updates = [bb for bb, t in b.calls() if t["callee"].get("path") == "saveload::marker::Marker::update"]
    ok = bool(look) and bool(getm) and bool(creates) and bool(allocs) and bool(inserts)
    ctx.ob("C15-R2", "retrieve_entity has lookup, marker fetch, create, allocate, insert", ok, b.loc(),
           "" if ok else "calls found: lookup %d, get_mut %d, create %d, allocate %d, insert %d" % (len(look), len(getm), len(creates), len(allocs), len(inserts)))
    if not ok:
        return
    v1 = b.variant_edges(lambda so: so[0] == "call" and so[1] in look and not so[2])
    v2 = b.variant_edges(lambda so: so[0] == "call" and so[1] in getm and not so[2])
    some1 = [ve["edges"]["Some"] for ve in v1 if "Some" in ve["edges"]]
    some2 = [ve["edges"]["Some"] for ve in v2 if "Some" in ve["edges"]]
    okb = bool(some1) and bool(some2)
    ctx.ob("C15-R2", "retrieve_entity branches on both the id lookup and the marker fetch", okb, b.loc(), "" if okb else "missing match on lookup / get_mut result")
    if not okb:
        return
    # the marker fetch is for the looked-up entity
    le = ("call", look[0], ("as Some", "0"))
    okf = all(b.arg_origin(g, 1) == le for g in getm)
    ctx.ob("C15-R2", "the marker component is fetched for the looked-up entity", okf, b.loc(getm[0]), "" if okf else "get_mut argument %r" % (b.arg_origin(getm[0], 1),))
    hit = some2[0][1]
    bad = [x for x in creates + allocs + inserts if x in b.reachable(hit)]
    ctx.ob("C15-R2", "known marker with a live marked entity: nothing is created", not bad, b.loc(some2[0][0]),
           "" if not bad else "on the path where the marker is known and the entity still carries it, %s is still reachable: a duplicate entity / marker is created" % [b.loc(x) for x in bad])
    okp, wit = b.must_pass(hit, updates)
    rets_hit = [d for d in b.defs().get(0, []) if d[1] in b.reachable(hit) and d[0] == "stmt"]
    okr = bool(rets_hit) and all(b.operand_origin(d[4]["ops"][0]) == le for d in rets_hit if d[4]["k"] == "use")
    ctx.ob("C15-R2", "known marker: the marker is updated and the existing entity returned", okp and okr, b.loc(some2[0][0]),
           "" if okp and okr else "update on every path: %s; returns the looked-up entity: %s" % (okp, okr))
    # miss paths: everything not through `hit`
    miss_ok = True
    why = ""
    removed = {some2[0]}
    for c in creates:
        if c not in b.reachable(0, removed=removed):
            miss_ok, why = False, "create() only reachable through the hit path"
    # per creation site (a helper inlined at two miss paths gives two sites): this creation is followed, on every path, by an allocate and an
    # insert for THE CREATED entity, with the marker's id, the created entity is what is returned, and no path creates twice
    seq_ok = arg_ok = id_ok = ret_ok = once_ok = True
    for c in creates:
        ce = ("call", c, ())
        reach_c = b.reachable(b.term(c)["target"]) if b.term(c).get("target") is not None else set()
        my_allocs = [a for a in allocs if a in reach_c and b.arg_origin(a, 1) == ce]
        my_inserts = [i for i in inserts if i in reach_c and b.arg_origin(i, 1) == ce and b.arg_origin(i, 2)[0] == "call" and b.arg_origin(i, 2)[1] in my_allocs]
        if not (my_allocs and my_inserts and b.must_pass(c, my_allocs)[0] and b.must_pass(c, my_inserts)[0]):
            seq_ok = False
        if [a for a in allocs if a in reach_c and a not in my_allocs and not any(o in b.reachable(b.term(a)["target"] or 0) for o in [c])] and not my_allocs:
            arg_ok = False
        foreign = [x for x in allocs + inserts if x in reach_c and x not in my_allocs + my_inserts and
                   not any(x in b.reachable(b.term(o)["target"]) for o in creates if o != c and b.term(o).get("target") is not None and o in reach_c)]
        if foreign:
            arg_ok = False
        if not all(any(d[0] == "call" and b.term(d[1])["callee"].get("path") == "saveload::marker::Marker::id" for d in b.deps(b.arg_origin(a, 2))) for a in my_allocs):
            id_ok = False
        rets_c = [d for d in b.defs().get(0, []) if d[0] == "stmt" and d[4]["k"] == "use" and d[1] in reach_c]
        if not rets_c or not all(b.operand_origin(d[4]["ops"][0], at=(d[1], d[2])) == ce for d in rets_c):
            ret_ok = False
        if any(o in reach_c for o in creates):
            once_ok = False
    ok2 = miss_ok and seq_ok and arg_ok and id_ok and ret_ok and once_ok
    ctx.ob("C15-R2", "unknown marker: one entity is created, given the marker's id and returned", ok2, b.loc(creates[0]),
           "" if ok2 else why or "create->allocate->insert on every path: %s; allocate/insert for the created entity: %s; allocate with the marker's id: %s; returns the created entity: %s; at most one creation per path: %s (creation sites: %d)" % (seq_ok, arg_ok, id_ok, ret_ok, once_ok, len(creates)))
    # every path that is not the hit path creates
    okall, wit = b.must_pass(0, creates, removed={some2[0]})
    ctx.ob("C15-R2", "every miss path creates the entity", okall, b.loc(), "" if okall else "a path that misses the lookup returns without creating: %s" % b.fmt_path(wit))


def r3(ctx, facts):
    bs = de_bodies(facts)
    ctx.floor("C15-R3", "generated deserialize_entity bodies", len(bs), 12, config=facts.config)
    for b in bs:
        ms = members(b.self_ty)
        if not ms:
            continue
        ok = True
        why = ""
        seen_pos = set()
        pos_sw = {}
        for sbb, org, tv, other in b.switch_edges():
            if org[0] == "discr" and org[1][0] == "param" and org[1][1] == 3 and len(org[1][2]) == 1:
                pos_sw.setdefault(int(org[1][2][0]), []).append((sbb, org, tv, other))
        def member_calls(k, name):
            # member k is identified by the receiver (field k of the storage tuple); inside an inlined generic helper the callee's
            # self type is the helper's type parameter
            return [bb for bb, t in b.real_calls() if t["callee"].get("path") == "storage::generic::GenericWriteStorage::" + name
                    and b.arg_origin(bb, 0)[:3] == ("param", 1, (str(k),)) and b.arg_origin(bb, 1) == ("param", 2, ())]

        def arms(sbb, tv, other):
            names = b._variant_names_for_switch(sbb)
            return ([t_ for v, t_ in tv.items() if names.get(v) == "Some"] or [other])[0], ([t_ for v, t_ in tv.items() if names.get(v) == "None"] or [other])[0]
        all_sw = {x[0] for lst in pos_sw.values() for x in lst}
        # the deciding switch of a position is the one whose Some arm converts that component (the others are drop-elaboration
        # re-tests of the same component); after path splitting there can be several copies of it
        deciding = {}
        for k, lst in pos_sw.items():
            conv = [bb for bb, t in b.real_calls() if t["callee"].get("path") == "saveload::ConvertSaveload::convert_from" and
                    b.arg_origin(bb, 0) == ("param", 3, (str(k), "as Some", "0"))]
            deciding[k] = [(x, conv) for x in lst if any(c in b.reachable(arms(x[0], x[2], x[3])[0], stop=all_sw - {x[0]}) for c in conv)]
        dblocks = {x[0][0] for k in deciding for x in deciding[k]}
        for k in sorted(deciding):
            ins, rem = member_calls(k, "insert"), member_calls(k, "remove")
            for (sbb, org, tv, other), conv in deciding[k]:
                seen_pos.add(k)
                some_t, none_t = arms(sbb, tv, other)
                stop = [x for x in dblocks if x != sbb]
                ok_i = bool(ins) and bool(conv) and all(any(b.depends_on_call(b.arg_origin(i, 2), c) for c in conv) for i in ins) and \
                    all(x not in b.reachable(none_t, stop=stop) for x in ins)
                ok_r = bool(rem) and b.must_pass(none_t, rem, goals=stop + b.returns())[0]
                if not (ok_i and ok_r):
                    ok = False
                    why = "position %d: present -> insert(member %d, entity, convert_from(component %d)): %s; absent -> remove(member %d, entity) on every path: %s" % (k, k, k, ok_i, k, ok_r)
        if seen_pos != set(range(len(ms))):
            ok = False
            why = why or "positions handled %s of %d" % (sorted(seen_pos), len(ms))
        ctx.ob("C15-R3", "%s::deserialize_entity insert/remove per position" % b.self_ty, ok, b.loc(), why)


CMP_IMPLIES = {  # (op, a_is_id) -> relation of (counter ? id) on the TRUE edge / FALSE edge
    ("Ge", True): ("N<=I", "N>I"), ("Gt", True): ("N<I", "N>=I"), ("Le", True): ("N>=I", "N<I"), ("Lt", True): ("N>I", "N<=I"),
    ("Ge", False): ("N>=I", "N<I"), ("Gt", False): ("N>I", "N<=I"), ("Le", False): ("N<=I", "N>I"), ("Lt", False): ("N<I", "N>=I"),
    ("Eq", True): ("N==I", "N!=I"), ("Eq", False): ("N==I", "N!=I"), ("Ne", True): ("N!=I", "N==I"), ("Ne", False): ("N!=I", "N==I"),
}


def _r4_symbolic(b, I, N, idparam):
    """Path-wise difference-bound argument for one allocate() body: every value is kept as id+k, counter0+k, max(..) or
    unknown, d = id - counter0 is kept as an interval refined by the comparisons the path takes; only the explicit-id arm of
    the match on the id parameter is followed.  Returns (monotone verdicts, ends-above verdicts, decisive) where a verdict
    is (True|False|"unknown", bb)."""
    import re as _re
    INF = float("inf")
    mono, ends = [], []
    state = {"unk": False, "paths": 0}

    def cint(o):
        if isinstance(o, dict) and "const" in o:
            m = _re.match(r"^(\d+)_[ui](8|16|32|64|128|size)$", str(o["const"]).strip())
            if m:
                return int(m.group(1))
        return None

    def pkey(proj):
        return "[]" if not proj else ".".join(str(e.get("field", e.get("downcast"))) if isinstance(e, dict) else str(e) for e in proj)

    def shift(v, c):
        if v is None:
            return None
        if v[0] in ("I", "N"):
            return (v[0], v[1] + c)
        if v[0] == "max":
            return ("max", shift(v[1], c), shift(v[2], c))
        return None

    def ge(x, y, lo, hi, strict=False):
        """is x >= y (or x > y) known from lo <= d <= hi ?  True / False (known to fail for some d in range) / None"""
        if x is None or y is None:
            return None
        if y[0] == "max":
            a, c = ge(x, y[1], lo, hi, strict), ge(x, y[2], lo, hi, strict)
            return True if (a is True and c is True) else (None if None in (a, c) else False)
        if x[0] == "max":
            a, c = ge(x[1], y, lo, hi, strict), ge(x[2], y, lo, hi, strict)
            return True if (a is True or c is True) else (None if None in (a, c) else False)
        k = 1 if strict else 0
        if x[0] == y[0]:
            return x[1] >= y[1] + k
        if x[0] == "I":       # id + a >= counter0 + b + k  <=>  d >= b + k - a
            return lo >= y[1] + k - x[1]
        return hi <= x[1] - y[1] - k   # counter0 + a >= id + b + k  <=>  d <= a - b - k

    def opval(o, env, cnt):
        c = cint(o)
        if c is not None:
            return ("c", c)
        pl = core_op_place(o)
        if pl is None:
            return None
        key = (pl["local"], pkey(pl["proj"]))
        if key in env:
            return env[key]
        if not pl["proj"] and (pl["local"], "[]") in env:
            return env[(pl["local"], "[]")]
        og = b.origin(pl)
        if og == I:
            return ("I", 0)
        if og == N:
            return cnt
        if og == ("param", idparam, ()):
            return ("idopt",)
        return None

    def walk(bb, env, cnt, lo, hi, seen):
        if state["paths"] > 256:
            state["unk"] = True
            return
        if bb in seen:
            return
        seen = seen | {bb}
        env = dict(env)
        blk = b.blocks[bb]
        for s_ in blk["stmts"]:
            d, rv = s_["dst"], s_["rv"]
            k = rv["k"]
            v = None
            if k == "use":
                v = opval(rv["ops"][0], env, cnt)
            elif k == "binop" and rv.get("op", "").startswith("Add"):
                x, y = opval(rv["ops"][0], env, cnt), opval(rv["ops"][1], env, cnt)
                if y is not None and y[0] == "c":
                    v = shift(x, y[1])
                elif x is not None and x[0] == "c":
                    v = shift(y, x[1])
            elif k == "binop" and rv.get("op") in ("Ge", "Gt", "Le", "Lt", "Eq", "Ne"):
                v = ("cmp", rv["op"], opval(rv["ops"][0], env, cnt), opval(rv["ops"][1], env, cnt))
            elif k == "discriminant":
                if b.origin(rv["place"]) == ("param", idparam, ()) or opval({"copy": rv["place"]}, env, cnt) == ("idopt",):
                    v = ("iddiscr",)
            if d["proj"]:
                og = b.origin(d)
                if og == N:
                    old = cnt
                    if v is None or v[0] not in ("I", "N", "max"):
                        mono.append(("unknown", bb))
                        state["unk"] = True
                        cnt = None
                    else:
                        r = ge(v, old, lo, hi) if old is not None else None
                        mono.append((True if r is True else ("unknown" if r is None else False), bb))
                        cnt = v
                continue
            key = (d["local"], "[]")
            for k2 in [k2 for k2 in env if k2[0] == d["local"]]:
                del env[k2]
            if k == "binop" and rv.get("op", "").endswith("WithOverflow"):
                env[(d["local"], "0")] = v
            else:
                env[key] = v
        t = blk["term"]
        tk = t["k"]
        if tk == "return":
            state["paths"] += 1
            r = ge(cnt, ("I", 0), lo, hi, strict=True) if cnt is not None else None
            ends.append((True if r is True else ("unknown" if r is None else False), bb))
            return
        if tk == "switch":
            dv = opval(t["discr"], env, cnt)
            tv = {v_: x for v_, x in t["targets"]}
            if dv == ("iddiscr",):
                walk(tv.get(1, t["otherwise"]), env, cnt, lo, hi, seen)
                return
            if dv is not None and dv[0] == "cmp" and dv[2] is not None and dv[3] is not None and \
                    {dv[2][0], dv[3][0]} == {"I", "N"} and 0 in tv:
                op, x, y = dv[1], dv[2], dv[3]
                if x[0] == "N":       # normalise to  id + a  OP  counter0 + b
                    op = {"Ge": "Le", "Gt": "Lt", "Le": "Ge", "Lt": "Gt"}.get(op, op)
                    x, y = y, x
                c = y[1] - x[1]       # d OP c
                tr = {"Ge": ((max(lo, c), hi), (lo, min(hi, c - 1))), "Gt": ((max(lo, c + 1), hi), (lo, min(hi, c))),
                      "Le": ((lo, min(hi, c)), (max(lo, c + 1), hi)), "Lt": ((lo, min(hi, c - 1)), (max(lo, c), hi)),
                      "Eq": ((max(lo, c), min(hi, c)), (lo, hi)), "Ne": ((lo, hi), (max(lo, c), min(hi, c)))}[op]
                for (l2, h2), tgt in ((tr[0], t["otherwise"]), (tr[1], tv[0])):
                    if l2 <= h2:
                        walk(tgt, env, cnt, l2, h2, seen)
                return
            for x in sorted(set(tv.values()) | {t["otherwise"]}):
                walk(x, env, cnt, lo, hi, seen)
            return
        if tk == "call":
            c = t["callee"]
            nm = c.get("name") if isinstance(c, dict) else None
            v = None
            args = [opval(a, env, cnt) for a in t["args"]]
            if not t.get("ghost"):
                if nm == "max" and len(args) == 2 and all(a is not None and a[0] in ("I", "N", "max") for a in args):
                    v = ("max", args[0], args[1])
                elif nm in ("saturating_add", "wrapping_add", "unchecked_add") and len(args) == 2 and args[1] is not None and args[1][0] == "c":
                    v = shift(args[0], args[1][1])
                d = t["dst"]
                if d["proj"]:
                    if b.origin(d) == N:
                        state["unk"] = True
                        cnt = None
                else:
                    for k2 in [k2 for k2 in env if k2[0] == d["local"]]:
                        del env[k2]
                    env[(d["local"], "[]")] = v
                # a callee handed the counter by mutable reference could write it
                for a in t["args"]:
                    pl = core_op_place(a)
                    if pl is not None and any(dd == N for dd in b.deps(b.origin(pl))) and "&mut" in b.ltype.get(pl["local"], ""):
                        state["unk"] = True
                        cnt = None
        if t.get("target") is not None:
            walk(t["target"], env, cnt, lo, hi, seen)

    walk(0, {}, ("N", 0), -INF, INF, frozenset())
    if not ends:
        state["unk"] = True
    decisive = not state["unk"] and not any(v[0] == "unknown" for v in mono + ends)
    return mono, ends, decisive


def r4(ctx, facts):
    r4_writers(ctx, facts)
    r4_clone(ctx, facts)
    impls = [b for b in facts.bodies if b.trait_item == ALLOC and b.impl]
    ctx.floor("C15-R4", "MarkerAllocator::allocate impls", len(impls), 1)
    for b in impls:
        ins = [bb for bb, t in b.calls() if t["callee"].get("name") == "insert" and "HashMap" in (t["callee"].get("path", "") + (t["callee"].get("self_ty") or ""))
               and b.arg_origin(bb, 0)[:2] == ("param", 1)]
        ok, wit = b.must_pass(0, ins) if ins else (False, None)
        ent = all(b.arg_origin(bb, 2) == ("param", 2, ()) for bb in ins)
        ret = b.origin({"local": 0, "proj": []})
        idok = all(any(d[0] == "call" and b.term(d[1])["callee"].get("name") == "id" for d in b.deps(b.arg_origin(bb, 1))) or
                   b.roots(b.arg_origin(bb, 1)) & b.roots(ret) for bb in ins)
        ctx.ob("C15-R4", "%s overwrites mapping[id] = entity on every path" % b.path, ok and ent and idok, b.loc(),
               "" if ok and ent and idok else "allocate() does not insert (overwrite) the returned marker's id -> its entity on every path (insert sites: %d, every path: %s, "
               "entity parameter: %s): a stale mapping to a dead entity survives and later loads create duplicates" % (len(ins), ok, ent))
        # counter past explicit id
        idp = [i for i in range(2, b.argc + 1) if b.ltype[i].startswith("std::option::Option<")]
        cnt = sorted({b.origin(dst)[2][0] for sbb, si, dst, rv, line in b.stores() if b.origin(dst)[:2] == ("param", 1) and len(b.origin(dst)[2]) == 1})
        if not idp or len(cnt) != 1:
            continue
        I = ("param", idp[0], ("as Some", "0"))
        N = ("param", 1, (cnt[0],))
        ves = b.variant_edges(lambda so: so == ("param", idp[0], ()))
        some = [ve["edges"]["Some"] for ve in ves if "Some" in ve["edges"]]
        if not some:
            ctx.ob("C15-R4", "%s explicit-id path" % b.path, "undetermined", b.loc(), "no match on the explicit id")
            continue
        verdicts = []
        mono = []      # (verdict, bb) for every store to the counter on the explicit-id path: the counter never moves backwards

        def walk(bb, holds, seen, rel=None):
            if bb in seen or len(verdicts) > 64:
                return
            seen = seen | {bb}
            for sbb, si, dst, rv, line in b.stores():
                if sbb == bb and b.origin(dst) == N:
                    vo = b.operand_origin(rv["ops"][0]) if rv.get("k") == "use" else ("unknown",)
                    deps = b.deps(vo)
                    plus1 = vo[0] == "op" and vo[1].startswith("Add") and I in vo[2]
                    mx = vo[0] == "call" and b.term(vo[1])["callee"].get("name") == "max" and any(d[0] == "op" and d[1].startswith("Add") and I in d[2] for d in deps)
                    holds = True if (plus1 or mx) else "unknown"
                    # monotonicity: max(counter, ..) / counter + c never decrease; id + 1 does not decrease only where counter <= id is known
                    mx_n = vo[0] == "call" and b.term(vo[1])["callee"].get("name") == "max" and (N in deps or any(b.arg_origin(vo[1], k) == N for k in range(len(b.term(vo[1])["args"]))))
                    inc_n = vo[0] == "op" and vo[1].startswith("Add") and N in vo[2] and I not in vo[2]
                    if mx_n or inc_n:
                        mono.append((True, bb))
                    elif plus1:
                        mono.append((True if rel in ("N<=I", "N<I", "N==I") else False, bb))
                    elif I in deps or vo == I:
                        mono.append((False if rel not in ("N<=I", "N<I", "N==I") else "unknown", bb))
                    else:
                        mono.append(("unknown", bb))
                    rel = None
            t = b.term(bb)
            if t["k"] == "return":
                verdicts.append((holds, bb))
                return
            if t["k"] == "switch":
                o = b.operand_origin(t["discr"])
                if o[0] == "op" and o[1] in ("Ge", "Gt", "Le", "Lt", "Eq", "Ne") and set(o[2]) == {I, N}:
                    rel_t, rel_f = CMP_IMPLIES[(o[1], o[2][0] == I)]
                    tv = {v: x for v, x in t["targets"]}
                    walk(t["otherwise"], True if rel_t == "N>I" else holds, seen, rel_t)
                    if 0 in tv:
                        walk(tv[0], True if rel_f == "N>I" else holds, seen, rel_f)
                    return
            for s_ in b.succs(bb):
                walk(s_, holds, seen, rel)
        walk(some[0][1], False, frozenset())
        bad = [v for v in verdicts if v[0] is False]
        unk = [v for v in verdicts if v[0] == "unknown"]
        res = False if bad else ("undetermined" if unk or not verdicts else True)
        if bad or unk or not verdicts or any(v[0] is not True for v in mono):
            # the pattern walk could not discharge it: decide with the path-wise difference-bound argument where that is decisive
            smono, sends, decisive = _r4_symbolic(b, I, N, idp[0])
            if decisive:
                mono, verdicts = smono, sends
                bad = [v for v in verdicts if v[0] is False]
                unk = []
                res = False if bad else True
        mbad = [v for v in mono if v[0] is False]
        munk = [v for v in mono if v[0] == "unknown"]
        mres = False if mbad else ("undetermined" if munk else True)
        ctx.ob("C15-R4", "%s: an explicitly given id never moves the counter backwards" % b.path, mres, b.loc(mbad[0][1]) if mbad else b.loc(),
               "" if mres is True else ("on the explicit-id path the counter `%s` is overwritten with a value derived from the id on an edge where counter <= id is not "
                                        "known (no comparison of the two guards the store, and it is neither max(counter, ..) nor counter + c): loading an id below "
                                        "the counter rewinds it and the next fresh markers repeat ids that live entities hold" % cnt[0] if mbad else
                                        "could not relate the value stored into the counter to its old value"))
        ctx.ob("C15-R4", "%s: counter ends above an explicitly given id" % b.path, res, b.loc(),
               "" if res is True else ("on the explicit-id path the counter `%s` is not known to exceed the id at return (a comparison edge that only gives "
                                       "counter >= id, or no update): the next freshly allocated marker can repeat a loaded id" % cnt[0] if bad else
                                       "could not follow how the counter is updated on the explicit-id path"))


SMA = "saveload::marker::SimpleMarkerAllocator"


def r4_writers(ctx, facts):
    """who writes the marker allocator's state.  The invariants `counter > every id in the mapping` and `counter never decreases` are decided for
    allocate() (above) and hold trivially for the constructors (0 / empty) and for maintain() (rebuilds the mapping only).  Any OTHER body that
    stores into the counter or the mapping, or builds an allocator value with a non-constant counter (a bulk `mark_all`, a `from_storage`
    constructor ..), computes ids by its own arithmetic: whether the invariants survive is value-dependent - reported as undetermined with the
    site, never silently accepted and never a violation."""
    adt = facts.adts.get(SMA)
    if not adt:
        return
    names = [f["name"] for f in adt["variants"][0]["fields"]]
    state = [n for n in names if not n.startswith("_")]
    for b in facts.bodies:
        if b.kind == "Closure":
            par = facts.closure_site(b)
        ti = b.trait_item or ""
        known = ti in (ALLOC, "saveload::marker::MarkerAllocator::maintain", "std::clone::Clone::clone", "std::default::Default::default", "std::fmt::Debug::fmt") or \
            (b.name == "new" and base_ty(b.self_ty or "") == SMA)
        sites = []
        if base_ty(b.self_ty or "") == SMA and not known:
            for sbb, si, dst, rv, line in b.stores():
                o = b.origin(dst)
                if o[:2] == ("param", 1) and o[2] and o[2][0] in state:
                    sites.append("store into self.%s at %s" % (o[2][0], b.loc(sbb, line)))
            for bb, t in b.real_calls():
                ro = b.arg_origin(bb, 0) if t["args"] else None
                if ro and ro[:2] == ("param", 1) and ro[2][:1] == ("mapping",) and t["callee"].get("name") in ("insert", "remove", "clear", "retain", "extend", "entry", "drain"):
                    sites.append("%s on self.mapping at %s" % (t["callee"]["name"], b.loc(bb)))
        if not known:
            for bid, blk in b.blocks.items():
                for i, st in enumerate(blk["stmts"]):
                    rv = st["rv"]
                    if rv["k"] == "aggregate" and rv.get("adt") == SMA and bid in b.live_blocks() and "index" in names:
                        io = b.operand_origin(rv["ops"][names.index("index")], at=(bid, i))
                        if io[0] != "const":
                            sites.append("builds an allocator with a computed counter (%r) at %s" % (io[:2], b.loc(bid, st.get("line"))))
        if sites:
            ctx.ob("C15-R4", "%s writes the marker allocator's state" % b.path, "undetermined", b.loc(),
                   "a further writer of the marker counter / mapping; not decided whether `counter > every id handed out` and `counter never decreases` "
                   "survive its own arithmetic: " + "; ".join(sites[:4]))


def r4_clone(ctx, facts):
    """A copy of a marker allocator carries the whole id state.  `Clone::clone` of every type that implements MarkerAllocator must build its
    result field by field from the same field of `self` (a copy, or that field's own `Clone::clone`); phantom / zero-sized markers aside.  A clone
    that keeps the counter but starts with an empty mapping (seed C15-g2: "handles are world-specific, maintain rebuilds it") makes a restored
    allocator treat every known marker as unknown: loading creates a second live entity with an id a live entity already holds."""
    allocs = sorted({base_ty(i["self_ty"]) for i in facts.impls if i.get("trait") == "saveload::marker::MarkerAllocator"})
    n = 0
    for a in allocs:
        adt = facts.adts.get(a)
        if not adt:
            continue
        fields = adt["variants"][0]["fields"]
        for b in facts.bodies:
            if b.trait_item != "std::clone::Clone::clone" or base_ty(b.self_ty or "") != a:
                continue
            n += 1
            aggs = [d for d in b.defs().get(0, []) if d[0] == "stmt" and d[4]["k"] == "aggregate" and d[4].get("adt") == a]
            if not aggs:
                ctx.ob("C15-R4", "%s copies every state field" % b.path, "undetermined", b.loc(), "the clone does not build its result as one aggregate; not followed")
                continue
            bad = []
            for d in aggs:
                for k, f in enumerate(fields):
                    if "PhantomData" in f["ty"] or k >= len(d[4]["ops"]):
                        continue
                    o = b.operand_origin(d[4]["ops"][k], at=(d[1], d[2])) if len(d) > 2 else b.operand_origin(d[4]["ops"][k])
                    ok = o[:2] == ("param", 1) and tuple(o[2][:1]) == (f["name"],)
                    if not ok and o[0] == "call":
                        c = b.term(o[1])["callee"]
                        ao = b.arg_origin(o[1], 0) if b.term(o[1])["args"] else None
                        ok = c.get("path") == "std::clone::Clone::clone" and ao and ao[:2] == ("param", 1) and tuple(ao[2][:1]) == (f["name"],)
                    if not ok:
                        bad.append("field `%s` comes from %r, not from self.%s" % (f["name"], o[:2], f["name"]))
            ctx.ob("C15-R4", "%s copies every state field" % b.path, not bad, b.loc(),
                   "" if not bad else "a cloned marker allocator does not carry the original's id state: " + "; ".join(bad) +
                   " - ids already handed out are unknown to the copy, so loading or marking through it duplicates live marker ids")
    ctx.floor("C15-R4", "Clone impls of marker allocators", n, 1)
