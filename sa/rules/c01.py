"""C01 - entity handles are unique for the whole life of a world."""
from ..alloc import ALLOC, CACHE, VEC_MUT, AllocModel
from . import _alloc_rules
from .. import affine

ARMED = True
TECHNIQUE = "value-origin (index provenance), pairing/dominance rules over the allocator's MIR (revive=>generation bump, truncate-before-mutate, kill folds pending raise); affine abstract interpretation of the generation step functions"
EXPLANATION = (
    "R1 (index provenance): every modification of the fresh-index counter sits in the failure fallback of a free-list pop, and the index of "
    "every Entity aggregate built by an allocating body (one that makes an index occupied: sets its alive or raised bit) originates in "
    "that pop-or-fresh value. R2 (revive => bump): every BitSet::add on the allocator's `alive` field is accompanied, on every path through "
    "it, by a raise of generations[same index]; the deferred path (AtomicBitSet::add_atomic on `raised`) returns a handle whose generation "
    "originates in the same computation as the entities join (C02-R5). R3 (truncate before mutate, resync after): in every &mut self method "
    "of the free list that mutates its vector, the mutation is dominated by a truncation of the vector to the atomic length (or a call that "
    "must do it) and every path from it to return stores the vector's length back into the atomic length. R4 (kill folds the pending "
    "raise): every death site (alive bit cleared) that also kills the generation slot is preceded either by `if raised.remove(i) { "
    "generations[i].raise() }` on the same index - the raise is guarded by the true-edge of the remove, the remove dominates the death of "
    "the slot - or by the bulk idiom (every item of an iteration over `raised` is raised, then raised.clear() dominates the death site)."
)
NOT_DECIDED = ("the inductive argument that these mechanisms imply pairwise-distinct handles over every history; wrap-around of the generation counter "
               "at the i32 boundary (R5 treats integers as unbounded); interleavings of the atomic paths (C10)")
TRUSTED = ["rustc nightly MIR", "hibitset BitSet/AtomicBitSet add/remove/clear semantics by name", "Vec method semantics by name", "sa/ analyses"]
LEVEL_TEXT = ("The four mechanisms the property names are each decided on all CFG paths of the allocator: where an index may come from, that "
              "every revival bumps the generation, that the free list is truncated to its atomic length before and resynchronised after every "
              "exclusive mutation, and that an immediate kill first folds a pending deferred raise; and the generation arithmetic itself is decided "
              "for all inputs by an affine summary of the step functions (die keeps the magnitude, revival strictly increases it). Uniqueness as a "
              "theorem over histories is not decided.")


def configs(tier):
    return ["A", "N"] if tier == "quick" else ["A", "F", "N", "FN"]   # N: three independent seeds (C01-g2, C10-g2, C17-g2) hid a defect in a cfg(not(parallel)) twin


def run(ctx):
    for r, t in [("C01-R1", "index provenance: free list first, fresh counter only when the pop failed"),
                 ("C01-R2", "every revival bumps the generation of that index"),
                 ("C01-R3", "free list: truncate to the atomic length before mutating, resync after"),
                 ("C01-R4", "an immediate kill folds the pending deferred raise before dying"),
                 ("C01-R5", "generation step function: die keeps the magnitude and makes it dead, revival yields a strictly larger live generation"),
                 ("C01-R6", "the world's entity allocator is installed once, by the world constructor")]:
        ctx.rule(r, t)
    for cfg in configs(ctx.tier):
        facts = ctx.xfacts(cfg)
        n, model = _alloc_rules.fresh_only_after_failed_pop(ctx, facts, "C01-R1")
        ctx.floor("C01-R1", "counter bump sites", n, 2)
        r1_handles(ctx, facts, model)
        r2(ctx, facts, model)
        r3(ctx, facts, model)
        r4(ctx, facts, model)
        r5(ctx, facts, model)
        r6(ctx, facts)


def occupy_sites(model, b):
    out = [(bb, t, "alive") for bb, t in model.revive_sites(b)]
    out += [(bb, t, "raised") for bb, t in model.calls_on_field(b, ("raised",), {"add_atomic", "add"}, "AtomicBitSet")]
    return out


def r1_handles(ctx, facts, model):
    n = 0
    for b in model.bodies:
        occ = occupy_sites(model, b)
        pops = {x for x, _ in model.pop_calls(b)}
        if not occ or not pops:
            continue
        # the index made occupied and the index of the returned handle both come from the pop-or-fresh value
        def from_pop(org):
            return any(d[0] == "call" and d[1] in pops for d in b.deps(org))
        for bb, t, fld in occ:
            n += 1
            o = b.arg_origin(bb, 1)
            ok = from_pop(o)
            ctx.ob("C01-R1", "%s occupies an index from the free list or the counter (%s)" % (b.path, fld), ok, b.loc(bb),
                   "" if ok else "the index marked occupied does not originate in the pop-or-fresh value (%r)" % (o,))
        for d in b.defs().get(0, []):
            if d[0] == "stmt" and d[4]["k"] == "aggregate" and d[4].get("adt") == "world::entity::Entity":
                o = b.operand_origin(d[4]["ops"][0])
                ok = from_pop(o)
                ctx.ob("C01-R1", "%s returns a handle for that index" % b.path, ok, b.loc(line=b.blocks[d[1]]["stmts"][d[2]].get("line")),
                       "" if ok else "the returned handle's index does not originate in the pop-or-fresh value (%r)" % (o,))
    ctx.floor("C01-R1", "allocating bodies' occupy sites", n, 2)


def r2(ctx, facts, model):
    n = 0
    for b in model.bodies:
        rs_ = model.revive_sites(b)
        ords = b.ordinals([bb for bb, _ in rs_])
        for bb, t in rs_:
            i = ords[bb]
            n += 1
            key = model.index_key(b, b.arg_origin(bb, 1))
            raises = [rbb for rbb, k in model.gen_slot_calls(b, model.raise_) if k == key]
            # every entry->return path through the add passes a matching raise
            before = bb in b.reachable(0, stop=raises) and bb not in raises
            after_free = False
            if before:
                seen = b.reachable(bb, stop=raises)
                after_free = any(r in seen for r in b.returns())
            ok = bool(raises) and not (before and after_free)
            ctx.ob("C01-R2", "%s alive.add #%d paired with generations[i].raise()" % (b.path, i), ok, b.loc(bb),
                   "" if ok else "an index is made alive without bumping its generation on some path (matching raise sites: %s): "
                   "a revived index would reuse an old handle" % [b.loc(x) for x in raises])
    ctx.floor("C01-R2", "revive sites (alive.add)", n, 2)
    ctx.anchor("C01-R2", "ZeroableGeneration raise-like method (&mut self -> Generation)", model.raise_)


def r3(ctx, facts, model):
    n = 0
    cache_bodies = [b for b in facts.bodies if b.self_ty == CACHE and b.ltype.get(1, "").startswith("&mut")]
    # truncators: bodies that on every path truncate cache to len
    def trunc_sites(b, truncators):
        out = []
        for bb, t in b.calls():
            c = t["callee"]
            if c.get("name") == "truncate" and model._is_vec(c) and model.field_of(b, b.arg_origin(bb, 0)) == ("cache",):
                lo = b.arg_origin(bb, 1)
                co = b.call_of(lo)
                if co and co[1].get("name") in ("get_mut", "load", "into_inner") and model.field_of(b, b.arg_origin(co[0], 0)) == ("len",):
                    out.append(bb)
            elif c.get("path") in truncators and model.field_of(b, b.arg_origin(bb, 0)) == ():
                out.append(bb)
        return out
    truncators = set()
    changed = True
    while changed:
        changed = False
        for b in cache_bodies:
            if b.path in truncators:
                continue
            ts = trunc_sites(b, truncators)
            if ts and b.must_pass(0, ts)[0]:
                truncators.add(b.path)
                changed = True
    ctx.anchor("C01-R3", "a method that truncates the free list to its atomic length", truncators)

    def sync_sites(b, syncers):
        out = []
        for sbb, si, dst, rv, line in b.stores():
            po = b.origin({"local": dst["local"], "proj": []})
            co = b.call_of(po)
            if co and co[1].get("name") == "get_mut" and model.field_of(b, b.arg_origin(co[0], 0)) == ("len",):
                vo = b.operand_origin(rv["ops"][0]) if rv.get("k") == "use" else ("unknown",)
                vc = b.call_of(vo)
                if vc and vc[1].get("name") == "len" and model.field_of(b, b.arg_origin(vc[0], 0)) == ("cache",):
                    out.append(sbb)
        for bb, t in b.calls():
            if t["callee"].get("path") in syncers and t["args"] and model.field_of(b, b.arg_origin(bb, 0)) == ():
                out.append(bb)
        return out
    syncers = set()
    changed = True
    while changed:
        changed = False
        for b in cache_bodies:
            if b.path in syncers:
                continue
            ss = sync_sites(b, syncers)
            muts_here = [bb for bb, t in b.calls() if t["callee"].get("name") in VEC_MUT and model._is_vec(t["callee"])]
            if ss and not muts_here and b.must_pass(0, ss)[0]:
                syncers.add(b.path)
                changed = True
    for b in cache_bodies:
        muts = []
        for bb, t in b.calls():
            c = t["callee"]
            if c.get("name") in VEC_MUT and c.get("name") != "truncate" and model._is_vec(c) and \
                    model.field_of(b, b.arg_origin(bb, 0)) == ("cache",) and str(t["args"][0].get("ty", "")).startswith("&mut"):
                muts.append(bb)
        if not muts:
            continue
        ts = trunc_sites(b, truncators)
        syncs = sync_sites(b, syncers)
        ords = b.ordinals(muts)
        for m in muts:
            i = ords[m]
            n += 1
            dom = bool(ts) and (m not in b.reachable(0, stop=ts) or m in ts)
            ctx.ob("C01-R3", "%s mutation #%d truncates first" % (b.path, i), dom, b.loc(m),
                   "" if dom else "the free list is mutated without first truncating it to the atomic length: slots already handed out by "
                   "deferred pops would be handed out again; path %s" % b.fmt_path(b.find_path(0, m, avoid=ts)))
            post, wit = b.must_pass(m, syncs) if syncs else (False, None)
            # the sync must come after the mutation, not before
            ctx.ob("C01-R3", "%s mutation #%d resyncs the atomic length" % (b.path, i), post, b.loc(m),
                   "" if post else "after mutating the free list the atomic length is not set to the vector's length on path %s" % b.fmt_path(wit))
    ctx.floor("C01-R3", "free-list mutation sites", n, 2)


def r4(ctx, facts, model):
    n = 0
    for b in model.bodies:
        deaths = model.death_sites(b)
        dies = model.gen_slot_calls(b, model.die)
        ords = b.ordinals([bb for bb, _ in deaths])
        for bb, t in deaths:
            i = ords[bb]
            key = model.index_key(b, b.arg_origin(bb, 1))
            slot_deaths = [dbb for dbb, k in dies if k == key]
            if not slot_deaths:
                ctx.ob("C01-R4", "%s death #%d kills the generation slot" % (b.path, i), "undetermined", b.loc(bb),
                       "alive bit cleared but no die() on generations[same index] found")
                continue
            n += 1
            # idiom A: per-index fold
            rem = [(rbb, rt) for rbb, rt in model.calls_on_field(b, ("raised",), {"remove"}, "AtomicBitSet")
                   if model.index_key(b, b.arg_origin(rbb, 1)) == key]
            okA = False
            whyA = "no raised.remove(same index)"
            for rbb, rt in rem:
                edges = b.bool_guard_edges(lambda gbb, gt: gbb == rbb)
                raises = [x for x, k in model.gen_slot_calls(b, model.raise_) if k == key]
                if not edges:
                    whyA = "result of raised.remove is not tested"
                    continue
                if not raises:
                    whyA = "no generations[i].raise() for this index"
                    continue
                true_t = [e["true_edge"] for e in edges]
                guarded = all(r not in b.reachable(0, removed=set(true_t)) for r in raises)
                # on the true edge, the raise happens before the slot dies
                folded = all(b.must_pass(te[1], raises, goals=slot_deaths)[0] for te in true_t)
                dominates = all(d not in b.reachable(0, stop=[rbb]) for d in slot_deaths)
                okA = guarded and folded and dominates
                whyA = "raise guarded by remove: %s, raise before die on the true edge: %s, remove dominates die: %s" % (guarded, folded, dominates)
            # idiom B: bulk
            clears = [cbb for cbb, ct in model.calls_on_field(b, ("raised",), {"clear"}, "AtomicBitSet")]
            okB = False
            if clears:
                dom = all(d not in b.reachable(0, stop=clears) for d in slot_deaths)
                # every item of an iteration over `raised` is raised
                bulk = False
                for nbb, nt in b.calls():
                    if nt["callee"].get("path") == "std::iter::Iterator::next" and \
                            b.receiver_root(b.arg_origin(nbb, 0))[:2] == ("param", 1) and b.receiver_root(b.arg_origin(nbb, 0))[2][:1] == ("raised",):
                        for ve in b.variant_edges(lambda so: so == ("call", nbb, ())):
                            some = ve["edges"].get("Some")
                            rs = [x for x, k in model.gen_slot_calls(b, model.raise_) if k is not None and k[0] == "call" and k[1] == nbb]
                            if some and rs and b.must_pass(some[1], rs, goals=[nbb] + b.returns())[0] and \
                                    all(nbb not in b.reachable(c) for c in clears) and all(c not in b.reachable(0, stop=[nbb]) for c in clears):
                                bulk = True
                okB = dom and bulk
            ok = okA or okB
            ctx.ob("C01-R4", "%s death #%d folds the pending raise" % (b.path, i), ok, b.loc(bb),
                   "" if ok else "the index dies without first applying a pending deferred raise (per-index idiom: %s; bulk idiom: %s): the next "
                   "revival would hand out a generation that a deferred creation already returned" % (whyA, "raised.clear() dominating + loop raising every item" if clears else "no raised.clear()"))
    ctx.floor("C01-R4", "death sites with a generation slot", n, 2)


GEN = "world::entity::Generation"
ZGEN = "world::entity::ZeroableGeneration"


def _fmt_form(f):
    a, b = f[1], f[2]
    return "%s%s" % ("" if a == 0 else ("x" if a == 1 else ("-x" if a == -1 else "%d*x" % a)), ("%+d" % b) if (b or a == 0) else "")


def r5(ctx, facts, model):
    """The generation counter as a piecewise-affine step function (sa/affine.py; nothing is run).  x = the integer a generation value
    encodes (positive: alive, negative: dead, 0: never used).  Obligations, each for EVERY x of the stated domain:
      live(x)  <=> x > 0                               (every self -> bool method of the two generation types)
      die:     x > 0  =>  returns, new value y < 0 and |y| >= x
      revive:  x <= 0 =>  result r > 0 and r > |x|     (raised / raise of both types; raise also stores r)
    Together: the generation of an index strictly grows in magnitude from one life to the next, so no two lives of an index share a
    generation - the arithmetic half of 'every revival bumps the generation' (R2 is the control-flow half)."""
    allb = getattr(facts, "all_bodies", facts.bodies)
    n_live = n_die = n_rev = 0
    revs = {}
    for b in allb:
        if b.self_ty not in (GEN, ZGEN) or b.argc != 1 or b.kind == "Closure" or b.trait_item:
            continue
        kind = "zeroable" if b.self_ty == ZGEN else "nonzero"
        rty, pty = b.ltype.get(0, ""), b.ltype.get(1, "")
        role = None
        if rty == "bool" and not pty.startswith("&mut"):
            role = "live"
        elif rty == "()" and pty.startswith("&mut"):
            role = "die"
        elif rty == GEN and pty.lstrip("&mut ").strip() in (GEN, ZGEN) and not b.path.endswith("::one"):
            role = "revive"
        if role is None:
            continue
        outs = affine.summarise(facts, b, kind)
        key = "%s is a %s step" % (b.path, role)
        bad, und = [], []
        if role == "live":
            n_live += 1
            for o in outs:
                if o.kind == "panic":
                    continue
                if o.kind == "top" or o.ret is None or o.ret == affine.TOP:
                    und.append("x in %r: %s" % (o.iv, o.why or "result not understood")); continue
                v = o.ret
                if v[0] == "bool":
                    pos = affine.refine(o.iv, "gt", 1, 0, 0)
                    neg = affine.refine(o.iv, "le", 1, 0, 0)
                    if v[1] and not neg.empty():
                        bad.append("answers true for x in %r (a dead or unused generation)" % neg)
                    if not v[1] and not pos.empty():
                        bad.append("answers false for x in %r (a live generation)" % pos)
                elif v[0] == "cmp":
                    _, op, a, c0, c = v
                    t_iv = affine.refine(o.iv, op, a, c0, c)
                    f_iv = affine.refine(o.iv, affine.NEG[op], a, c0, c)
                    t_bad = affine.refine(t_iv, "le", 1, 0, 0)
                    f_bad = affine.refine(f_iv, "gt", 1, 0, 0)
                    if not t_bad.empty():
                        bad.append("answers true for x in %r" % t_bad)
                    if not f_bad.empty():
                        bad.append("answers false for x in %r" % f_bad)
                else:
                    und.append("x in %r: result %r" % (o.iv, v))
        elif role == "die":
            n_die += 1
            for o in outs:
                dom = affine.refine(o.iv, "gt", 1, 0, 0)
                if dom.empty():
                    continue
                if o.kind == "panic":
                    bad.append("panics for the live generations x in %r" % dom); continue
                forms = affine.as_int_form(o.recv) if o.kind == "ret" else None
                if not forms:
                    und.append("x in %r: %s" % (dom, o.why or "stored value not understood")); continue
                for _, f in forms:
                    ok1, w1 = affine.holds_on(dom, f, "lt", affine.aff(0, 0))
                    ok2, w2 = affine.holds_on(dom, f, "le", affine.aff(-1, 0))
                    if not ok1:
                        bad.append("stores y = %s, which is not dead (y < 0) at x = %s" % (_fmt_form(f), w1))
                    elif not ok2:
                        bad.append("stores y = %s, whose magnitude is below x at x = %s (a later revival can repeat a generation)" % (_fmt_form(f), w2))
        else:
            n_rev += 1
            revs[b.path] = outs
            for o in outs:
                dom = affine.refine(o.iv, "le", 1, 0, 0)
                if dom.empty():
                    continue
                if o.kind == "panic":
                    und.append("panics for the dead generations x in %r (%s)" % (dom, o.why)); continue
                forms = affine.as_int_form(o.ret) if o.kind == "ret" else None
                if not forms:
                    und.append("x in %r: %s" % (dom, o.why or "result not understood")); continue
                for _, f in forms:
                    ok1, w1 = affine.holds_on(dom, f, "gt", affine.aff(0, 0))
                    ok2, w2 = affine.holds_on(dom, f, "gt", affine.aff(-1, 0))
                    if not ok1:
                        bad.append("returns r = %s, not a live generation (r > 0) at x = %s" % (_fmt_form(f), w1))
                    elif not ok2:
                        bad.append("returns r = %s, not larger than the dead generation's magnitude at x = %s: a handle of this index can be issued twice" % (_fmt_form(f), w2))
                if pty.startswith("&mut"):
                    st = affine.as_int_form(o.recv)
                    if not st:
                        und.append("x in %r: stored value not understood" % dom)
                    elif [f for _, f in st] != [f for _, f in forms]:
                        bad.append("stores %s but returns %s" % (", ".join(_fmt_form(f) for _, f in st), ", ".join(_fmt_form(f) for _, f in forms)))
        verdict = False if bad else ("undetermined" if und else True)
        summ = "; ".join("x in %r -> %s" % (o.iv, "panic" if o.kind == "panic" else ("?" if o.kind == "top" else
               (_fmt_form(affine.as_int_form(o.recv if role == "die" else o.ret)[0][1]) if affine.as_int_form(o.recv if role == "die" else o.ret) else repr(o.ret)))) for o in outs)
        ctx.ob("C01-R5", key, verdict, b.loc(), ("; ".join(bad or und)) + ("   [summary: %s]" % summ if (bad or und) else ""))
    # sibling agreement on the summaries: the generation a deferred creation hands out (Generation::raised of the pending slot) must be the
    # one the merge later stores (ZeroableGeneration::raise) - every revival step is the same function of x on the common domain x < 0
    if len(revs) >= 2:
        forms = {}
        for path, outs in revs.items():
            fs = set()
            for o in outs:
                dom = affine.refine(o.iv, "lt", 1, 0, 0)
                if dom.empty() or o.kind != "ret":
                    continue
                f = affine.as_int_form(o.ret)
                fs.add(_fmt_form(f[0][1]) if f else "?")
            forms[path] = fs
        vals = {frozenset(v) for v in forms.values() if v and "?" not in v}
        und = any("?" in v or not v for v in forms.values())
        ok = (len(vals) <= 1) if not und else ("undetermined" if len(vals) <= 1 else False)
        ctx.ob("C01-R5", "all revival steps compute the same generation for a dead slot", ok, "",
               "" if ok is True else "the revival steps disagree on x < 0 (%s): the handle a deferred creation returns is not the generation the merge stores" %
               "; ".join("%s: %s" % (k.rsplit("::", 2)[-2] + "::" + k.rsplit("::", 1)[-1], sorted(v)) for k, v in sorted(forms.items())))
    ctx.floor("C01-R5", "generation liveness predicates", n_live, 2)
    ctx.floor("C01-R5", "generation kill steps", n_die, 1)
    ctx.floor("C01-R5", "generation revival steps", n_rev, 3)


def r6(ctx, facts):
    """One allocator per world, for the world's whole life.  Uniqueness of handles is a property of the history the allocator has seen; replacing the
    `EntitiesRes` resource of a living world (seed C01-k1: a storage set-up helper `if !res.has_value::<Entities>() { res.insert(EntitiesRes::default()) }`
    - `Entities` is the `Read<..>` alias, never a resource, so the test is always true) starts the history over while the earlier entities still
    exist.  Who-may-call rule: `World::insert` / `entry` / `remove` instantiated for the entities resource occur only in the world constructor
    (`WorldExt::new`); the constructor's own site is the matcher's positive example."""
    ENT = "world::entity::EntitiesRes"
    sites = []
    for b in facts.all_bodies:
        for bb, t in b.real_calls():
            c = t["callee"]
            if c.get("crate") == "shred" and c.get("name") in ("insert", "entry", "remove", "insert_by_id", "remove_by_id") and \
                    any(x.replace(" ", "") == ENT for x in c.get("substs", [])):
                sites.append((b, bb, c.get("path")))
    ctor = [x for x in sites if x[0].path.endswith("WorldExt>::new") or x[0].trait_item == "world::world_ext::WorldExt::new" or
            x[0].src(x[1]).endswith("WorldExt>::new")]
    ctx.ob("C01-R6", "the world constructor installs the entity allocator", bool(ctor), ctor[0][0].loc(ctor[0][1]) if ctor else "",
           "" if ctor else "no World::insert::<EntitiesRes> found in WorldExt::new: the matcher is dead or the constructor changed", nontrivial=False)
    others = [x for x in sites if x not in ctor]
    ctx.ob("C01-R6", "nothing else installs, replaces or removes the entity allocator", not others, others[0][0].loc(others[0][1]) if others else "",
           "" if not others else "; ".join("%s calls %s::<EntitiesRes> at %s" % (b.path, p, b.loc(bb)) for b, bb, p in others[:3]) +
           " - a second allocator in a living world hands out handles that earlier entities already hold")
