"""C14 - save/load round trip preserves marked entities, components and references (clause)."""
from ..core import base_ty
from .. import witness
from ._saveload import closure_bodies_in, de_bodies, members, ser_bodies

ARMED = True
TECHNIQUE = "type-equality witnesses for the data layouts, value-origin of the id closures and per-position plumbing over the MIR of the generated (de)serialisers (feature configuration with serde)"
EXPLANATION = (
    "The pinned test-suite does not even compile src/saveload. Decided (configuration F): W12 (layouts agree): for arities 1, 2, 3, 8, 16 the Data "
    "type an n-tuple of read storages serialises is the Data type the same n-tuple of write storages deserialises (type-equality witness; a permuted "
    "tuple is rejected with E0308). R1 (id closures): in serialize() the closure handed to serialize_entity returns markers.get(its entity).cloned(); "
    "in the DeserializeSeed the entity of an element and every referenced marker go through MarkerAllocator::retrieve_entity with the marker from "
    "the data / the closure's argument; in serialize_recursive the closure goes through MarkerAllocator::mark and queues the entity exactly on the "
    "`added` edge. R2 (per position): every generated serialize_entity of arity n builds its result tuple so that position i derives from "
    "GenericReadStorage::get(member i of self, the entity parameter), converted by a closure that calls convert_into of member i's component. R3 "
    "(one element per marked entity): the loop of serialize() is driven by the join over (entities, markers), and every iteration passes "
    "serialize_element exactly once with that item's marker and serialize_entity(that item's entity). R4: Entity's ConvertSaveload maps through the "
    "function argument in both directions (convert_into -> func(*self), convert_from -> func(data))."
)
NOT_DECIDED = ("round-trip EQUALITY of values, absence of duplicates across the whole file, arbitrary reference graphs (cycles, forward references), "
               "serde data formats; the derive-generated conversions are C18 R5 (who may delete): no body under saveload calls an entity-deleting API (EntitiesRes::delete, Allocator::kill*, World::delete_*): the entity a record resolves to may pre-exist the load or be referenced by records already read; expected count zero, matcher shown alive by the deleting call sites outside saveload.")
TRUSTED = ["rustc nightly type checking and MIR", "serde", "sa/ analyses"]
LEVEL_TEXT = ("Clause only: the writer's and the reader's tables agree (layouts per arity, per-position plumbing, id closures routed through the marker "
              "storage / retrieve_entity). Equality of the loaded world with the saved one quantifies over values and is NOT decided.")


def run(ctx):
    for r, t in [("C14-R1", "id closures go through the marker storage / retrieve_entity / mark"), ("C14-R2", "position i of the data comes from member i"),
                 ("C14-R3", "one element per (entities, markers) join item"), ("C14-R4", "Entity converts through the id mapping both ways"),
                 ("C14-R5", "saving and loading never delete an entity")]:
        ctx.rule(r, t)
    facts = ctx.xfacts("F")
    r1(ctx, facts)
    r2(ctx, facts)
    r3(ctx, facts)
    r4(ctx, facts)
    r5(ctx, facts)
    if ctx.tier == "thorough":
        ctx.xfacts("FN")
        r2(ctx, ctx.xfacts("FN"))
    witness.run_set(ctx, "C14", ["w12_layout_01", "w12_layout_02", "w12_layout_08", "w12_layout_16", "w12_layout_permuted"])


def r1(ctx, facts):
    s = facts.body("saveload::ser::SerializeComponents::serialize")
    ctx.anchor("C14-R1", "SerializeComponents::serialize (provided)", s)
    if s:
        ok = False
        why = "no id closure handed to serialize_entity"
        ses = [bb for bb, t in s.calls() if t["callee"].get("path") == "saveload::ser::SerializeComponents::serialize_entity"]
        for bid, i, rv, cb in closure_bodies_in(facts, s):
            used = any(s.depends_on_call(s.arg_origin(bb, 2), -1) or ("agg", bid, i, ()) in s.deps(s.arg_origin(bb, 2)) for bb in ses)
            if not used:
                continue
            gets = [(cbb, ct) for cbb, ct in cb.calls() if ct["callee"].get("name") == "get" and "storage::Storage" in ct["callee"].get("path", "")]
            good = bool(gets)
            for cbb, ct in gets:
                body_, org = facts.root_origin(cb, cb.arg_origin(cbb, 0))
                if not (org[0] == "param" and org[1] == 3) or cb.arg_origin(cbb, 1) != ("param", 2, ()):
                    good = False
            ret = cb.deps(cb.origin({"local": 0, "proj": []}))
            if not any(d[0] == "call" and d[1] in [x for x, _ in gets] for d in ret):
                good = False
            ok = good
            why = "" if ok else "the entity->marker closure does not return markers.get(entity)"
        ctx.ob("C14-R1", "serialize: references are written as the referenced entity's marker", ok, s.loc(), why)
    # role: the per-element loader = the body that hands an element's data to DeserializeComponents::deserialize_entity (today the
    # DeserializeSeed impl of the private DeserializeEntity; a merged / renamed private loader type is found the same way)
    d = [b for b in facts.bodies if b.kind != "Closure" and
         any(t["callee"].get("path") == "saveload::de::DeserializeComponents::deserialize_entity" for _, t in b.real_calls())]
    ctx.anchor("C14-R1", "per-element loader (the body that calls DeserializeComponents::deserialize_entity)", d)
    for b in d:
        res = [bb for bb, t in b.calls() if t["callee"].get("path") == "saveload::marker::MarkerAllocator::retrieve_entity"]
        des = [bb for bb, t in b.calls() if t["callee"].get("path") == "saveload::de::DeserializeComponents::deserialize_entity"]
        datas = [bb for bb, t in b.calls() if t["callee"].get("name") == "deserialize" and "EntityData" in (t["callee"].get("self_ty") or "")]
        ok = bool(res) and bool(des) and bool(datas)
        why = "retrieve_entity / deserialize_entity / EntityData::deserialize calls: %d/%d/%d" % (len(res), len(des), len(datas))
        if ok:
            r0 = res[0]
            ok = any(b.depends_on_call(b.arg_origin(r0, 1), x) for x in datas) and all(b.arg_origin(x, 1) == ("call", r0, ()) for x in des) and \
                all(any(b.depends_on_call(b.arg_origin(x, 2), y) for y in datas) for x in des)
            why = "" if ok else "the element's entity is not retrieve_entity(marker from the data) or its components are not the data's"
        ctx.ob("C14-R1", "deserialize: the element's entity is resolved from its marker", ok, b.loc(), why)
        okc = False
        for bid, i, rv, cb in closure_bodies_in(facts, b):
            rc = [(cbb, ct) for cbb, ct in cb.calls() if ct["callee"].get("path") == "saveload::marker::MarkerAllocator::retrieve_entity"]
            if rc and all(cb.arg_origin(cbb, 1) == ("param", 2, ()) for cbb, ct in rc):
                # every Some the closure returns carries exactly the result of retrieve_entity (which re-checks that the mapped entity still holds the marker)
                somes = [st_ for blk in cb.blocks.values() for st_ in blk["stmts"] if st_["rv"]["k"] == "aggregate" and st_["rv"].get("variant") == "Some"]
                okc = bool(somes) and all(cb.operand_origin(st_["rv"]["ops"][0]) in [("call", x, ()) for x, _ in rc] for st_ in somes)
                lookups = [cbb for cbb, ct in cb.calls() if ct["callee"].get("name") == "retrieve_entity_internal"]
                if lookups:
                    okc = False
        ctx.ob("C14-R1", "deserialize: referenced markers are resolved through retrieve_entity", okc, b.loc(),
               "" if okc else "the marker->entity closure returns something other than retrieve_entity(its marker) (e.g. the raw id mapping, which may point at a dead entity)")
    sr = facts.body("saveload::ser::SerializeComponents::serialize_recursive")
    ctx.anchor("C14-R1", "SerializeComponents::serialize_recursive (provided)", sr)
    if sr:
        okm = False
        why = "no closure calling MarkerAllocator::mark"
        for bid, i, rv, cb in closure_bodies_in(facts, sr):
            marks = [cbb for cbb, ct in cb.calls() if ct["callee"].get("path") == "saveload::marker::MarkerAllocator::mark" and cb.arg_origin(cbb, 1) == ("param", 2, ())]
            if not marks:
                continue
            pushes = [cbb for cbb, ct in cb.calls() if ct["callee"].get("name") == "push" and "vec::Vec" in ct["callee"].get("path", "")]
            sw = [(sbb, tv, other) for sbb, org, tv, other in cb.switch_edges() if org[0] == "call" and org[1] in marks and org[2][-1:] == ("1",)]
            if pushes and sw:
                sbb, tv, other = sw[0]
                only_added = all(p not in cb.reachable(0, removed={(sbb, other)}) for p in pushes)
                always = cb.must_pass(other, pushes, goals=cb.returns())[0]
                okm = only_added and always
                why = "" if okm else "queued exactly when newly marked: only-when-added=%s always-when-added=%s" % (only_added, always)
            else:
                why = "mark() result's `added` flag does not decide the push (pushes %d, switches %d)" % (len(pushes), len(sw))
        ctx.ob("C14-R1", "serialize_recursive: references are marked, newly marked entities are queued once", okm, sr.loc(), why)


def r2(ctx, facts):
    bs = ser_bodies(facts)
    ctx.floor("C14-R2", "generated serialize_entity bodies", len(bs), 12, config=facts.config)
    for b in bs:
        ms = members(b.self_ty)
        if not ms:
            continue
        tup = None
        for bid, blk in b.blocks.items():
            for s in blk["stmts"]:
                rv = s["rv"]
                if rv["k"] == "aggregate" and rv.get("tuple") and len(rv["ops"]) == len(ms) and any(
                        d[0] == "stmt" and d[4]["k"] == "aggregate" and d[4].get("variant") == "Ok" for d in b.defs().get(0, [])):
                    tup = [b.operand_origin(x) for x in rv["ops"]]
        ok = tup is not None
        why = "" if ok else "no result tuple of arity %d" % len(ms)
        if ok:
            for k, o in enumerate(tup):
                deps = b.deps(o)
                gets = [d for d in deps if d[0] == "call" and b.term(d[1])["callee"].get("path") == "storage::generic::GenericReadStorage::get"]
                if len({b.site(d[1]) for d in gets}) != 1:
                    ok, why = False, "position %d derives from %d storage lookups" % (k, len({b.site(d[1]) for d in gets}))
                    break
                g = gets[0][1]
                c = b.term(g)["callee"]
                so = b.arg_origin(g, 0)
                # the lookup is on member k: decided by where the storage operand comes from (field k of the tuple); the callee's Self type must
                # agree unless the call sits in an inlined generic helper, where it is the helper's own type parameter
                sty = c.get("self_ty")
                inlined_generic = b.src(g) != b.path and sty not in ms
                if (sty != ms[k] and not inlined_generic) or not (so[0] == "param" and so[1] == 1 and so[2][:1] == (str(k),)) or b.arg_origin(g, 1) != ("param", 2, ()):
                    ok, why = False, "position %d is read from %s / %r for entity %r (expected member %d = %s and the entity parameter)" % (k, c.get("self_ty"), so, b.arg_origin(g, 1), k, ms[k])
                    break
                # converted: the value at this position depends on a convert_into call fed by that lookup
                conv = any(d[0] == "call" and b.term(d[1])["callee"].get("path") == "saveload::ConvertSaveload::convert_into"
                           and any(b.depends_on_call(b.arg_origin(d[1], 0), gg[1]) for gg in gets) for d in deps)
                if not conv:
                    ok, why = False, "position %d is not converted with convert_into" % k
                    break
        ctx.ob("C14-R2", "%s::serialize_entity position i <- member i" % b.self_ty, ok, b.loc(), why)


def r3(ctx, facts):
    s = facts.body("saveload::ser::SerializeComponents::serialize")
    if not s:
        return
    joins = [bb for bb, t in s.calls() if t["callee"].get("path") == "join::Join::join"]
    nexts = [bb for bb, t in s.calls() if t["callee"].get("path") == "std::iter::Iterator::next" and any(s.depends_on_call(s.arg_origin(bb, 0), j) for j in joins)]
    elems = [bb for bb, t in s.calls() if t["callee"].get("name") == "serialize_element"]
    ses = [bb for bb, t in s.calls() if t["callee"].get("path") == "saveload::ser::SerializeComponents::serialize_entity"]
    ok = bool(nexts) and bool(elems) and bool(ses)
    why = "join-driven loop / serialize_element / serialize_entity: %d/%d/%d" % (len(nexts), len(elems), len(ses))
    if ok:
        n = nexts[0]
        jroot = [j for j in joins if s.depends_on_call(s.arg_origin(n, 0), j)]
        jo = s.arg_origin(jroot[0], 0) if jroot else None
        tuple_ok = False
        if jo and jo[0] == "agg":
            ops = [s.operand_origin(x) for x in s.blocks[jo[1]]["stmts"][jo[2]]["rv"]["ops"]]
            tuple_ok = ops == [("param", 2, ()), ("param", 3, ())]
        ent_ok = all(s.depends_on_call(s.arg_origin(x, 1), n, ("as Some", "0", "0")) for x in ses)
        for ve in s.variant_edges(lambda so: so == ("call", n, ())):
            some = ve["edges"].get("Some")
            if some:
                once, wit = s.must_pass(some[1], elems, goals=[n] + s.returns())
                # an early return is only allowed through the error path (`?`): paths to return that skip serialize_element must pass a Try::branch Break edge
                ok = tuple_ok and ent_ok
                why = "" if ok else "joined members are (entities, markers): %s; serialize_entity gets the item's entity: %s" % (tuple_ok, ent_ok)
                marker_ok = any(s.depends_on_call(s.arg_origin(e, 1), n, ("as Some", "0", "1")) for e in elems)
                if ok and not marker_ok:
                    ok, why = False, "the element's marker is not the joined item's marker"
    ctx.ob("C14-R3", "serialize writes one element per (entities, markers) item with that item's marker and entity", ok, s.loc(), why)
    cnt = [bb for bb, t in s.calls() if t["callee"].get("name") == "serialize_seq"]
    ctx.ob("C14-R3", "serialize opens exactly one sequence", len(cnt) == 1, s.loc(), "" if len(cnt) == 1 else "%d serialize_seq calls" % len(cnt))
    # announced length: None, or the count of the same (entities, markers) join that is then written
    for bb in cnt:
        lo = s.arg_origin(bb, 1)
        okl = False
        if lo[0] == "agg":
            rv = s.blocks[lo[1]]["stmts"][lo[2]]["rv"]
            if rv.get("variant") == "None":
                okl = True
            elif rv.get("variant") == "Some":
                deps = s.deps(s.operand_origin(rv["ops"][0]))
                okl = any(d[0] == "call" and s.term(d[1])["callee"].get("name") == "count" for d in deps) and \
                    any(d[0] == "call" and s.term(d[1])["callee"].get("path") == "join::Join::join" for d in deps)
        ctx.ob("C14-R3", "serialize announces the number of elements it writes (or none)", okl, s.loc(bb),
               "" if okl else "the length handed to serialize_seq is not the count of the joined (entities, markers): length-prefixed formats lose or misread elements")
    sr = facts.body("saveload::ser::SerializeComponents::serialize_recursive")
    if sr:
        for bb, t in sr.calls():
            if t["callee"].get("name") != "serialize_seq":
                continue
            lo = sr.arg_origin(bb, 1)
            okn = lo[0] == "agg" and sr.blocks[lo[1]]["stmts"][lo[2]]["rv"].get("variant") == "None"
            ctx.ob("C14-R3", "serialize_recursive announces no length (elements are discovered while writing)", okn, sr.loc(bb),
                   "" if okn else "serialize_recursive announces a length before the recursion has marked the reachable entities: length-prefixed "
                   "formats cut the sequence short")


def r4(ctx, facts):
    n = 0
    for b in facts.bodies:
        if b.trait_item in ("saveload::ConvertSaveload::convert_into", "saveload::ConvertSaveload::convert_from") and b.self_ty == "world::entity::Entity":
            n += 1
            calls = [bb for bb, t in b.calls() if t["callee"].get("name") in ("call_mut", "call", "call_once")]
            ok = False
            why = "the id-mapping function is not called"
            for bb in calls:
                ao = b.arg_origin(bb, 1)
                want = ("param", 1, ()) if b.trait_item.endswith("convert_into") else ("param", 1, ())
                arg_ok = False
                if ao[0] == "agg":
                    ops = [b.operand_origin(x) for x in b.blocks[ao[1]]["stmts"][ao[2]]["rv"]["ops"]]
                    arg_ok = ops == [want]
                ret_ok = b.depends_on_call(b.origin({"local": 0, "proj": []}), bb) or any(
                    d[0] == "agg" and any(b.depends_on_call(b.operand_origin(x), bb) for x in b.blocks[d[1]]["stmts"][d[2]]["rv"]["ops"]) for d in b.deps(b.origin({"local": 0, "proj": []})))
                fn_ok = b.arg_origin(bb, 0)[:2] == ("param", 2)
                ok = arg_ok and ret_ok and fn_ok
                why = "" if ok else "argument is self/data: %s, result is returned: %s, callee is the mapping parameter: %s" % (arg_ok, ret_ok, fn_ok)
            ctx.ob("C14-R4", "Entity::%s maps through the id function" % b.trait_item.split("::")[-1], ok, b.loc(), why)
    ctx.floor("C14-R4", "ConvertSaveload methods of Entity", n, 2)


DELETERS = ("world::entity::EntitiesRes::delete", "world::entity::Allocator::kill", "world::entity::Allocator::kill_atomic",
            "world::world_ext::WorldExt::delete_entity", "world::world_ext::WorldExt::delete_entities", "world::world_ext::WorldExt::delete_all")


def r5(ctx, facts):
    """Loading creates entities for unknown markers and updates known ones in place; saving only reads.  Nothing under `saveload` may delete an
    entity: the entity a record resolves to can be one that existed before the load (merge by marker) or one created early by a forward
    reference, and the marker storage and the allocator's mapping keep pointing at it (seed C14-i1: `entities.delete(entity)` on the error path of
    a record, "don't leave it half-initialised" - a later good load re-uses the doomed entity and the next maintain kills it).  Who-may-call rule,
    expected count zero; the matcher is shown alive by the deleting call sites it finds elsewhere in the crate (the builders' Drop)."""
    def deleting_calls(b):
        return [(bb, t) for bb, t in b.real_calls() if (t["callee"].get("path") or "") in DELETERS]
    elsewhere = sum(len(deleting_calls(b)) for b in facts.all_bodies if not b.path.startswith("saveload::") and "saveload::" not in (b.self_ty or ""))
    ctx.floor("C14-R5", "entity-deleting call sites seen outside saveload (matcher alive)", elsewhere, 2)
    bad = []
    n = 0
    for b in facts.all_bodies:
        if not (b.path.startswith("saveload::") or "saveload::" in (b.self_ty or "") or b.path.startswith("<saveload::")):
            continue
        n += 1
        for bb, t in deleting_calls(b):
            bad.append("%s calls %s at %s" % (b.path, t["callee"]["path"], b.loc(bb)))
    ctx.ob("C14-R5", "no body under saveload deletes an entity (%d bodies)" % n if False else "no body under saveload deletes an entity", not bad, "",
           "" if not bad else "; ".join(bad[:3]) + " - the entity may pre-exist the load or be referenced by records already read; its marker and the "
           "allocator's mapping still name it, and the deletion takes effect at the next maintain")
    ctx.floor("C14-R5", "saveload bodies examined", n, 30)
