"""Interprocedural expansion of a MIR body (bounded inlining), so that rule verdicts do not depend on how the
code is cut into private helper functions and closures.

expand(facts, body) returns a new Body in which
  * direct calls of crate-local, non-public, statically resolved functions are replaced by a renamed copy of the
    callee's CFG (parameters assigned from the argument operands, every `return` assigns the destination and jumps
    to the call's target, `unwind continue` / `resume` inside the copy go to the call site's unwind target);
  * a closure value handed to a call (Option::map, bool::then, Iterator::for_each / position / map, Box::new ...)
    is instantiated in front of that call as a block that may run zero or more times: the callee we cannot see may
    invoke the closure any number of times, so every site inside the closure stays subject to the rules, with its
    captures traced to the operands that built the closure; the closure's own parameters are unknown values,
    except for a small set of std combinators whose item is known (Option::map / and_then / unwrap_or_else ...,
    bool::then): there the parameter is bound to the payload of the receiver.
Nothing is executed; this only rewrites the fact structure the analyses read."""
import collections
import re

from .core import Body, op_place

MAX_DEPTH = 3
MAX_CALLEE_BLOCKS = 80
MAX_TOTAL_BLOCKS = 900

VARIANT_IDX = {"None": 0, "Some": 1, "Ok": 0, "Err": 1, "Continue": 0, "Break": 1}

# Abstraction boundary of the allocator model (sa/alloc.py): methods of these types are the primitive events the allocator rules
# are written over (a slot dies / is raised, an index is popped from / pushed onto the free list); they are analysed as bodies of
# their own and stay calls in the bodies that use them.
ROLE_TYPES = {"world::entity::ZeroableGeneration", "world::entity::Generation", "world::entity::EntityCache"}


class _Builder:
    def __init__(self, facts, root):
        self.f = facts
        self.root = root
        self.blocks = []
        self.locals = [dict(l) for l in root.d["locals"]]
        self.nlocals = max([l["id"] for l in self.locals] + [0]) + 1
        self.inlined = []
        self.closure_bind = {}      # new-space local -> closure body bound to it (closure argument of an inlined higher-order helper)

    def new_local(self, ty):
        i = self.nlocals
        self.nlocals += 1
        self.locals.append({"id": i, "ty": ty})
        return i

    def new_block(self, cleanup=False):
        b = {"id": len(self.blocks), "cleanup": cleanup, "stmts": [], "term": {"k": "unreachable", "line": 0, "exp": False}}
        self.blocks.append(b)
        return b

    # ------------------------------------------------------------ renaming
    def place(self, p, lm):
        proj = []
        for e in p["proj"]:
            if isinstance(e, dict) and "index" in e:
                e = dict(e, index=lm[e["index"]])
            proj.append(e)
        return {"local": lm[p["local"]], "proj": proj}

    def operand(self, o, lm):
        if not isinstance(o, dict):
            return o
        if "copy" in o:
            return dict(o, copy=self.place(o["copy"], lm))
        if "move" in o:
            return dict(o, move=self.place(o["move"], lm))
        return o

    def rvalue(self, rv, lm):
        r = dict(rv)
        if "ops" in r:
            r["ops"] = [self.operand(x, lm) for x in r["ops"]]
        if "place" in r:
            r["place"] = self.place(r["place"], lm)
        return r

    # -------------------------------------------------------------- copying
    def copy_body(self, b, lm, ret, unwind_to, depth, stack, file):
        """copy body `b` into the new block list.  lm: local map.  ret: None for the root, else (dst place, target bb).
        returns the new id of b's entry block."""
        bm = {}
        for bid in sorted(b.blocks):
            nb = self.new_block(b.blocks[bid]["cleanup"])
            nb["src"] = b.path
            nb["stack"] = stack
            nb["orig"] = bid
            bm[bid] = nb["id"]
        for bid in sorted(b.blocks):
            blk = b.blocks[bid]
            nb = self.blocks[bm[bid]]
            for s in blk["stmts"]:
                nb["stmts"].append({"dst": self.place(s["dst"], lm), "rv": self.rvalue(s["rv"], lm), "line": s.get("line"), "file": file})
            t = blk["term"]
            k = t["k"]
            nt = dict(t)
            nt["file"] = file
            if k == "return":
                if ret is not None:
                    dst, target = ret
                    nb["stmts"].append({"dst": dst, "rv": {"k": "use", "ops": [{"move": {"local": lm[0], "proj": []}, "ty": b.ltype.get(0, "")}]},
                                        "line": t.get("line"), "file": file})
                    nt = {"k": "goto", "target": target, "line": t.get("line"), "exp": t.get("exp", False), "file": file}
            elif k == "resume":
                if ret is not None and isinstance(unwind_to, int):
                    nt = {"k": "goto", "target": unwind_to, "line": t.get("line"), "exp": t.get("exp", False), "file": file}
            elif k in ("goto",):
                nt["target"] = bm[t["target"]]
            elif k == "switch":
                nt["discr"] = self.operand(t["discr"], lm)
                nt["targets"] = [[v, bm[x]] for v, x in t["targets"]]
                nt["otherwise"] = bm[t["otherwise"]]
            elif k in ("drop", "assert", "call"):
                if t.get("target") is not None:
                    nt["target"] = bm[t["target"]]
                uw = t.get("unwind")
                if isinstance(uw, int):
                    nt["unwind"] = bm[uw]
                elif uw == "continue" and ret is not None and isinstance(unwind_to, int):
                    nt["unwind"] = unwind_to
                if k == "drop":
                    nt["place"] = self.place(t["place"], lm)
                if k == "call":
                    nt["args"] = [self.operand(a, lm) for a in t["args"]]
                    nt["dst"] = self.place(t["dst"], lm)
                    ind = t["callee"].get("indirect") if isinstance(t["callee"], dict) else None
                    if isinstance(ind, str):
                        # a call through a fn pointer / closure value held in a local (`move _9`): keep track of the local under renaming
                        mm = re.match(r"^(?:move|copy) _(\d+)$", ind.strip())
                        if mm and int(mm.group(1)) in lm:
                            nt["callee"] = dict(t["callee"], indirect_local=lm[int(mm.group(1))])
                    elif isinstance(t["callee"], dict) and "indirect_local" in t["callee"] and t["callee"]["indirect_local"] in lm:
                        nt["callee"] = dict(t["callee"], indirect_local=lm[t["callee"]["indirect_local"]])
            nb["term"] = nt
        # second pass: inline calls / instantiate closures (needs the renamed terminators)
        mine = [self.blocks[bm[bid]] for bid in sorted(b.blocks)]
        plans, claimed = self.plan_pipelines(mine, depth, stack)
        for nb in mine:
            if nb["term"]["k"] == "call":
                if nb["id"] in plans:
                    self.desugar_pipeline(nb, plans[nb["id"]], depth, stack, file)
                elif nb["id"] in claimed:
                    continue
                else:
                    self.handle_call(b, nb.get("orig"), nb, lm, depth, stack, file)
        return bm[0]

    def handle_call(self, b, bid, nb, lm, depth, stack, file):
        t = nb["term"]
        c = t["callee"]
        if len(self.blocks) > MAX_TOTAL_BLOCKS:
            return
        # closures among the arguments (a higher-order private helper is only meaningful together with the closure it is handed)
        arg_clos = {}
        for k, a in enumerate(t["args"]):
            p = op_place(a)
            if p is not None and not p["proj"]:
                cb0 = self.closure_of_local(p["local"])
                if cb0 is not None:
                    arg_clos[k] = cb0
        if self.direct_closure_call(nb, t, depth, stack, file):
            return
        # a higher-order helper that is handed an atomic (a CAS loop parameterised by its step) is looked into only from a caller that is
        # itself such an RMW helper (`atomic_decrement(i)` = `atomic_step(i, |v| v - 1)`); from anywhere else it stays the opaque RMW
        # primitive the C10 / C01 rules are written over
        ho = bool(arg_clos) and any("sync::atomic::Atomic" in b.ltype.get(i, "") for i in range(1, b.argc + 1))
        target = self.inline_target(c, depth, stack, higher_order=ho or (bool(arg_clos) and not any("sync::atomic::Atomic" in str(a.get("ty", "")) for a in t["args"] if isinstance(a, dict))))
        if target is not None and t.get("target") is not None:
            # parameters
            clm = {l["id"]: self.new_local(l["ty"]) for l in target.d["locals"]}
            for k, a in enumerate(t["args"]):
                if k + 1 <= target.argc:
                    nb["stmts"].append({"dst": {"local": clm[k + 1], "proj": []}, "rv": {"k": "use", "ops": [a]}, "line": t.get("line"), "file": file})
                    if k in arg_clos:
                        self.closure_bind[clm[k + 1]] = arg_clos[k]
            cont = self.new_block(nb["cleanup"])
            cont["term"] = {"k": "goto", "target": t["target"], "line": t.get("line"), "exp": False, "file": file}
            entry = self.copy_body(target, clm, (t["dst"], cont["id"]), t.get("unwind"), depth + 1, stack + (target.path,), target.file)
            self.inlined.append(target.path)
            # the call stays visible as a `ghost` call in front of the copy (role-based discovery keeps working); its result goes nowhere
            ghost = dict(t)
            ghost["ghost"] = True
            ghost["dst"] = {"local": self.new_local(self.f_ty(t)), "proj": []}
            ghost["target"] = entry
            nb["term"] = ghost
            cont["src"], cont["stack"] = nb.get("src"), nb.get("stack")
            return
        # closures handed to a call we cannot see into
        clos = []
        for ai, a in enumerate(t["args"]):
            p = op_place(a)
            if p is None or p["proj"]:
                continue
            cb = self.closure_of_local(p["local"])
            if cb is not None and cb.path not in stack and depth < MAX_DEPTH:
                clos.append((ai, a, cb))
        if self.model_combinator(nb, t, {ai: (a, cb) for ai, a, cb in clos}, depth, stack, file):
            return
        if not clos:
            return
        src, stk = nb.get("src"), nb.get("stack")

        def blk():
            x = self.new_block(nb["cleanup"])
            x["src"], x["stack"] = src, stk
            return x

        def goto(target):
            return {"k": "goto", "target": target, "line": t.get("line"), "exp": False, "file": file}

        kblk = blk()
        kblk["term"] = t
        kblk["orig"] = nb.get("orig")
        once = [(ai, a, cb, self.combinator(c, t, ai)) for ai, a, cb in clos]
        loops = [(ai, a, cb) for ai, a, cb, w in once if w is None]
        once = [(ai, a, cb, w) for ai, a, cb, w in once if w is not None]

        def instantiate(ai, a, cb, after, payload):
            """blocks running closure `cb` once, then going to `after`; returns the entry block id"""
            clm = {l["id"]: self.new_local(l["ty"]) for l in cb.d["locals"]}
            pre = blk()
            pre["stmts"].append({"dst": {"local": clm[1], "proj": []}, "rv": {"k": "use", "ops": [{"copy": op_place(a), "ty": a.get("ty", "")}]},
                                 "line": t.get("line"), "file": file})
            if payload is not None and cb.argc >= 2:
                pre["stmts"].append({"dst": {"local": clm[2], "proj": []}, "rv": {"k": "use", "ops": [{"copy": payload, "ty": ""}]},
                                     "line": t.get("line"), "file": file})
            dummy = self.new_local(cb.ltype.get(0, "()"))
            entry = self.copy_body(cb, clm, ({"local": dummy, "proj": []}, after), t.get("unwind"), depth + 1, stack + (cb.path,), cb.file)
            pre["term"] = dict(goto(entry), closure=cb.path)
            self.inlined.append(cb.path)
            return pre["id"]

        nxt = kblk["id"]
        # closures that run any number of times (iterator adaptors, constructors that store the closure, ...)
        if loops:
            head = blk()
            nd = self.new_local("bool")
            tg = [instantiate(ai, a, cb, head["id"], None) for ai, a, cb in loops]
            head["term"] = {"k": "switch", "discr": {"copy": {"local": nd, "proj": []}, "ty": "nondet"},
                            "targets": [[i, x] for i, x in enumerate(tg)], "otherwise": nxt, "line": t.get("line"), "exp": False, "file": file}
            nxt = head["id"]
        # closures of std combinators: run once, exactly when the receiver has the variant the combinator calls it for
        for ai, a, cb, (recv, variant, bind) in once:
            sw = blk()
            payload = None
            if variant in ("Some", "Ok", "Err") and bind:
                payload = {"local": recv["local"], "proj": list(recv["proj"]) + [{"downcast": variant}, {"field": "0", "idx": 0, "of": ""}]}
            entry = instantiate(ai, a, cb, nxt, payload)
            if variant in ("true", "false"):
                tv, ot = (nxt, entry) if variant == "true" else (entry, nxt)
                sw["term"] = {"k": "switch", "discr": {"copy": recv, "ty": "bool"}, "targets": [[0, tv]], "otherwise": ot,
                              "line": t.get("line"), "exp": False, "file": file}
            else:
                dl = self.new_local("isize")
                sw["stmts"].append({"dst": {"local": dl, "proj": []}, "rv": {"k": "discriminant", "place": recv}, "line": t.get("line"), "file": file})
                idx = VARIANT_IDX[variant]
                sw["term"] = {"k": "switch", "discr": {"move": {"local": dl, "proj": []}, "ty": "isize"},
                              "targets": [[idx, entry], [1 - idx, nxt]], "otherwise": nxt, "line": t.get("line"), "exp": False, "file": file}
            nxt = sw["id"]
        nb["term"] = goto(nxt)

    # (callee name, closure argument position) -> variant of the receiver for which the combinator calls the closure, and whether
    # the closure's parameter is the payload of that variant
    # combinators whose result is a function of the receiver's variant and the closure's result: variant -> (closure argument
    # position or None, how the result is made).  Recipes: ret = the closure's result; wrap V = V(closure result);
    # payload = the receiver's payload; rewrap V = V(payload); none = None; arg k = argument k; recv = the receiver itself
    OPTION_MODEL = {
        "map": {"Some": (1, ("wrap", "Some")), "None": (None, ("none",))},
        "and_then": {"Some": (1, ("ret",)), "None": (None, ("none",))},
        "map_or": {"Some": (2, ("ret",)), "None": (None, ("arg", 1))},
        "map_or_else": {"Some": (2, ("ret",)), "None": (1, ("ret",))},
        "unwrap_or_else": {"Some": (None, ("payload",)), "None": (1, ("ret",))},
        "or_else": {"Some": (None, ("recv",)), "None": (1, ("ret",))},
        "ok_or_else": {"Some": (None, ("rewrap", "Ok")), "None": (1, ("wrap", "Err"))},
        "ok_or": {"Some": (None, ("rewrap", "Ok")), "None": (None, ("wraparg", "Err", 1))},
        "unwrap_or": {"Some": (None, ("payload",)), "None": (None, ("arg", 1))},
        "unwrap": {"Some": (None, ("payload",)), "None": (None, ("panic",))},
        "expect": {"Some": (None, ("payload",)), "None": (None, ("panic",))},
    }
    RESULT_MODEL = {
        "map": {"Ok": (1, ("wrap", "Ok")), "Err": (None, ("rewrap", "Err"))},
        "map_err": {"Ok": (None, ("rewrap", "Ok")), "Err": (1, ("wrap", "Err"))},
        "and_then": {"Ok": (1, ("ret",)), "Err": (None, ("rewrap", "Err"))},
        "or_else": {"Ok": (None, ("rewrap", "Ok")), "Err": (1, ("ret",))},
        "unwrap_or_else": {"Ok": (None, ("payload",)), "Err": (1, ("ret",))},
        "map_or": {"Ok": (2, ("ret",)), "Err": (None, ("arg", 1))},
        "map_or_else": {"Ok": (2, ("ret",)), "Err": (1, ("ret",))},
        "ok": {"Ok": (None, ("rewrap", "Some")), "Err": (None, ("none",))},
        "err": {"Ok": (None, ("none",)), "Err": (None, ("rewrap", "Some"))},
        "unwrap_or": {"Ok": (None, ("payload",)), "Err": (None, ("arg", 1))},
        "unwrap": {"Ok": (None, ("payload",)), "Err": (None, ("panic",))},
        "expect": {"Ok": (None, ("payload",)), "Err": (None, ("panic",))},
    }
    BOOL_MODEL = {"then": {"true": (1, ("wrap", "Some")), "false": (None, ("none",))}}

    def model_combinator(self, nb, t, clos, depth, stack, file):
        """replace a std Option/Result/bool combinator call whose closure arguments are all visible by the match it stands for"""
        c = t["callee"]
        path, name = c.get("path") or "", c.get("name")
        if not t["args"] or t.get("target") is None:
            return False
        recv = op_place(t["args"][0])
        if recv is None or recv["proj"]:
            return False
        if path.startswith("std::option::Option::<"):
            model, adt, order = self.OPTION_MODEL.get(name), "std::option::Option", ("None", "Some")
        elif path.startswith("std::result::Result::<"):
            model, adt, order = self.RESULT_MODEL.get(name), "std::result::Result", ("Ok", "Err")
        elif path.startswith(("std::bool::<impl bool>::", "core::bool::<impl bool>::")):
            model, adt, order = self.BOOL_MODEL.get(name), "std::option::Option", ("false", "true")
        else:
            return False
        if model is None:
            return False
        need = {ai for ai, _ in model.values() if ai is not None}
        if need != set(clos):
            return False     # a closure argument we cannot see (fn item, closure built elsewhere): keep the call
        line = t.get("line")
        src, stk = nb.get("src"), nb.get("stack")

        def mk():
            x = self.new_block(nb["cleanup"])
            x["src"], x["stack"] = src, stk
            return x

        def goto(target):
            return {"k": "goto", "target": target, "line": line, "exp": False, "file": file}
        join = mk()
        ghost = dict(t, ghost=True, absorbed=True)
        ghost["dst"] = {"local": self.new_local("ghost"), "proj": []}
        join["term"] = ghost
        join["orig"] = nb.get("orig")
        arms = {}
        for variant in order:
            ai, recipe = model[variant]
            fin = mk()
            payload = None
            if variant in ("Some", "Ok", "Err"):
                payload = {"move": {"local": recv["local"], "proj": [{"downcast": variant}, {"field": "0", "idx": 0, "of": ""}]}, "ty": ""}
            ret = None
            entry = fin["id"]
            if ai is not None:
                a, cb = clos[ai]
                binds = {2: dict(payload, copy=payload["move"])} if payload is not None else {}
                if binds:
                    binds[2].pop("move", None)
                entry, ret = self.run_closure(cb, a, binds, fin["id"], t.get("unwind"), depth, stack, line, file, mk)
            k = recipe[0]
            if k == "panic":
                # the call itself, which does not return on this arm
                fin["term"] = dict(t, target=None)
                arms[variant] = entry
                continue
            if k == "ret":
                rv = {"k": "use", "ops": [{"move": {"local": ret, "proj": []}, "ty": ""}]}
            elif k == "wrap":
                rv = {"k": "aggregate", "adt": "std::result::Result" if recipe[1] in ("Ok", "Err") else "std::option::Option", "variant": recipe[1],
                      "ops": [{"move": {"local": ret, "proj": []}, "ty": ""}]}
            elif k == "payload":
                rv = {"k": "use", "ops": [payload]}
            elif k == "rewrap":
                rv = {"k": "aggregate", "adt": "std::result::Result" if recipe[1] in ("Ok", "Err") else "std::option::Option", "variant": recipe[1], "ops": [payload]}
            elif k == "none":
                rv = {"k": "aggregate", "adt": "std::option::Option", "variant": "None", "ops": []}
            elif k == "arg":
                rv = {"k": "use", "ops": [t["args"][recipe[1]]]}
            elif k == "wraparg":
                rv = {"k": "aggregate", "adt": "std::result::Result" if recipe[1] in ("Ok", "Err") else "std::option::Option", "variant": recipe[1],
                      "ops": [t["args"][recipe[2]]]}
            else:
                rv = {"k": "use", "ops": [t["args"][0]]}
            fin["stmts"].append({"dst": t["dst"], "rv": rv, "line": line, "file": file})
            fin["term"] = goto(join["id"])
            arms[variant] = entry
        sw = mk()
        if order == ("false", "true"):
            sw["term"] = {"k": "switch", "discr": {"copy": recv, "ty": "bool"}, "targets": [[0, arms["false"]]], "otherwise": arms["true"],
                          "line": line, "exp": False, "file": file}
        else:
            dl = self.new_local("isize")
            sw["stmts"].append({"dst": {"local": dl, "proj": []}, "rv": {"k": "discriminant", "place": recv}, "line": line, "file": file})
            sw["term"] = {"k": "switch", "discr": {"move": {"local": dl, "proj": []}, "ty": "isize"},
                          "targets": [[VARIANT_IDX[v], arms[v]] for v in order], "otherwise": arms[order[0]], "line": line, "exp": False, "file": file}
        nb["term"] = goto(sw["id"])
        return True

    OPTION_COMB = {("map", 1): ("Some", True), ("and_then", 1): ("Some", True), ("is_some_and", 1): ("Some", True), ("map_or", 2): ("Some", True),
                   ("map_or_else", 2): ("Some", True), ("map_or_else", 1): ("None", False), ("unwrap_or_else", 1): ("None", False),
                   ("or_else", 1): ("None", False), ("ok_or_else", 1): ("None", False), ("filter", 1): ("Some", False),
                   ("inspect", 1): ("Some", False), ("is_none_or", 1): ("Some", True)}
    RESULT_COMB = {("map", 1): ("Ok", True), ("and_then", 1): ("Ok", True), ("is_ok_and", 1): ("Ok", True), ("map_err", 1): ("Err", True),
                   ("unwrap_or_else", 1): ("Err", True), ("or_else", 1): ("Err", True), ("map_or", 2): ("Ok", True),
                   ("map_or_else", 2): ("Ok", True), ("map_or_else", 1): ("Err", True), ("is_err_and", 1): ("Err", True),
                   ("inspect", 1): ("Ok", False), ("inspect_err", 1): ("Err", False)}
    BOOL_COMB = {("then", 1): ("true", False)}

    def combinator(self, c, t, ai):
        """(receiver place, variant, bind payload) when the call is a std combinator that runs closure argument `ai` at most once"""
        path = c.get("path") or ""
        name = c.get("name")
        if not t["args"] or ai == 0:
            return None
        recv = op_place(t["args"][0])
        if recv is None or recv["proj"]:
            return None
        if path.startswith("std::option::Option::<"):
            tab = self.OPTION_COMB
        elif path.startswith("std::result::Result::<"):
            tab = self.RESULT_COMB
        elif path.startswith("std::bool::<impl bool>::") or path.startswith("core::bool::<impl bool>::"):
            tab = self.BOOL_COMB
        else:
            return None
        w = tab.get((name, ai))
        if w is None:
            return None
        return recv, w[0], w[1]

    # ------------------------------------------------------------------------------------------------ iterator pipelines
    # adapter name -> how its closure sees the element: 'val' (by value) / 'ref' (by reference), and what its result means
    ADAPTERS = {"map": ("val", "map"), "filter": ("ref", "keep"), "filter_map": ("val", "optmap"), "inspect": ("ref", "none"),
                "take_while": ("ref", "stop"), "map_while": ("val", "optstop")}
    # consumer name -> (closure argument position, element parameter position in the closure, by 'val'/'ref', meaning of the result)
    CONSUMERS = {"for_each": (1, 2, "val", "none"), "all": (1, 2, "val", "stop_false"), "any": (1, 2, "val", "stop_true"),
                 "position": (1, 2, "val", "stop_true"), "find": (1, 2, "ref", "stop_true"), "find_map": (1, 2, "val", "stop_some"),
                 "fold": (2, 3, "val", "none"), "try_for_each": (1, 2, "val", "stop_any"), "try_fold": (2, 3, "val", "stop_any"),
                 "count": None, "last": None}

    @staticmethod
    def _is_iter_method(c, names):
        return isinstance(c, dict) and c.get("trait") == "std::iter::Iterator" and c.get("name") in names

    def plan_pipelines(self, mine, depth, stack):
        """find std iterator pipelines with closures in this function copy that can be rewritten as explicit loops.
        returns ({consumer block id: plan}, {block ids of the adapter calls absorbed by a plan})"""
        plans, claimed = {}, set()
        if depth >= MAX_DEPTH:
            return plans, claimed
        defs = collections.defaultdict(list)
        for blk in mine:
            for st in blk["stmts"]:
                defs[st["dst"]["local"]].append(("stmt", blk, st))
            t = blk["term"]
            if t["k"] == "call":
                defs[t["dst"]["local"]].append(("call", blk, t))

        def single(local):
            d = defs.get(local, [])
            return d[0] if len(d) == 1 else None

        def closure_body(o):
            pl = op_place(o)
            if pl is None or pl["proj"]:
                return None
            d = single(pl["local"])
            if d and d[0] == "stmt" and d[2]["rv"]["k"] == "aggregate" and "closure" in d[2]["rv"] and not d[2]["dst"]["proj"]:
                cb = self.f.body(d[2]["rv"]["closure"])
                if cb is not None and cb.path not in stack:
                    return cb
            return None

        def chain(o):
            """walk back from an iterator operand over closure adapters; returns (base operand, [(name, closure operand, body, block)])"""
            ads = []
            cur = o
            for _ in range(12):
                pl = op_place(cur)
                if pl is None or pl["proj"]:
                    break
                d = single(pl["local"])
                if d is None:
                    break
                if d[0] == "stmt":
                    rv = d[2]["rv"]
                    if d[2]["dst"]["proj"]:
                        break
                    if rv["k"] == "use" and op_place(rv["ops"][0]) is not None and not op_place(rv["ops"][0])["proj"]:
                        cur = rv["ops"][0]
                        continue
                    if rv["k"] == "ref" and not rv["place"]["proj"]:
                        cur = {"copy": rv["place"], "ty": self.lty(rv["place"]["local"])}
                        continue
                    if rv["k"] == "ref" and rv["place"]["proj"] == ["deref"]:
                        cur = {"copy": {"local": rv["place"]["local"], "proj": []}, "ty": ""}
                        continue
                    break
                t = d[2]
                c = t["callee"]
                if not isinstance(c, dict) or not t["args"]:
                    break
                if c.get("name") == "into_iter" and c.get("trait") == "std::iter::IntoIterator" and \
                        (c.get("resolved") or "").startswith("<I as std::iter::IntoIterator>"):
                    cur = t["args"][0]
                    continue
                if self._is_iter_method(c, self.ADAPTERS) and len(t["args"]) == 2:
                    cb = closure_body(t["args"][1])
                    if cb is None:
                        break
                    ads.insert(0, (c["name"], t["args"][1], cb, d[1]))
                    cur = t["args"][0]
                    continue
                break
            return cur, ads

        for blk in mine:
            t = blk["term"]
            if t["k"] != "call" or t.get("target") is None or not t["args"]:
                continue
            c = t["callee"]
            if self._is_iter_method(c, self.CONSUMERS) and self.CONSUMERS[c["name"]] is not None:
                ci, pi, how, res = self.CONSUMERS[c["name"]]
                if ci >= len(t["args"]):
                    continue
                cb = closure_body(t["args"][ci])
                if cb is None:
                    continue
                base, ads = chain(t["args"][0])
                if op_place(base) is None:
                    continue
                plans[blk["id"]] = {"kind": "consumer", "base": base, "adapters": ads, "closure": (t["args"][ci], cb, pi, how, res)}
                claimed |= {a[3]["id"] for a in ads}
            elif self._is_iter_method(c, {"next"}):
                base, ads = chain(t["args"][0])
                if not ads or op_place(base) is None:
                    continue
                plans[blk["id"]] = {"kind": "next", "base": base, "adapters": ads}
                claimed |= {a[3]["id"] for a in ads}
            elif self._is_iter_method(c, {"collect"}) and len(t["args"]) == 1:
                # `it.map(f).collect()`: the loop `for x in it.map(f) { out.push(x) }` with a fresh collection
                base, ads = chain(t["args"][0])
                if not ads or op_place(base) is None:
                    continue
                plans[blk["id"]] = {"kind": "collect", "base": base, "adapters": ads}
                claimed |= {a[3]["id"] for a in ads}
        # closure adaptors whose result is consumed by something we cannot see into (rayon's consume_iter, collect, extend, a
        # caller): the closure may run once per element of the underlying iterator, possibly not for all of them
        for blk in mine:
            t = blk["term"]
            if t["k"] != "call" or t.get("target") is None or blk["id"] in claimed or blk["id"] in plans:
                continue
            c = t["callee"]
            if self._is_iter_method(c, self.ADAPTERS) and len(t["args"]) == 2:
                cb = closure_body(t["args"][1])
                if cb is not None and op_place(t["args"][0]) is not None:
                    plans[blk["id"]] = {"kind": "opaque", "base": t["args"][0], "adapters": [],
                                        "closure": (t["args"][1], cb, 2, self.ADAPTERS[c["name"]][0], "opaque")}
        return plans, claimed

    def lty(self, local):
        for l in self.locals:
            if l["id"] == local:
                return l["ty"]
        return ""

    def run_closure(self, cb, clo_op, binds, after, unwind, depth, stack, line, file, mk):
        """blocks that run closure body `cb` once with parameter k bound to operand binds[k]; control continues at `after`.
        returns (entry block id, local holding the closure's result)"""
        clm = {l["id"]: self.new_local(l["ty"]) for l in cb.d["locals"]}
        pre = mk()
        pre["stmts"].append({"dst": {"local": clm[1], "proj": []}, "rv": {"k": "use", "ops": [{"copy": op_place(clo_op), "ty": clo_op.get("ty", "")}]},
                             "line": line, "file": file})
        for k, o in binds.items():
            if k <= cb.argc:
                pre["stmts"].append({"dst": {"local": clm[k], "proj": []}, "rv": {"k": "use", "ops": [o]}, "line": line, "file": file})
        ret = self.new_local(cb.ltype.get(0, "()"))
        entry = self.copy_body(cb, clm, ({"local": ret, "proj": []}, after), unwind, depth + 1, stack + (cb.path,), cb.file)
        pre["term"] = {"k": "goto", "target": entry, "line": line, "exp": False, "file": file, "closure": cb.path}
        self.inlined.append(cb.path)
        return pre["id"], ret

    def desugar_pipeline(self, nb, plan, depth, stack, file):
        """rewrite internal iteration (`it.map(f).for_each(g)`, `it.position(p)`, `for x in it.map(f)`) as the explicit loop
        over `next()` of the underlying iterator that the rules are written over"""
        t = nb["term"]
        line = t.get("line")
        src, stk = nb.get("src"), nb.get("stack")

        def mk():
            x = self.new_block(nb["cleanup"])
            x["src"], x["stack"] = src, stk
            return x

        def goto(target):
            return {"k": "goto", "target": target, "line": line, "exp": False, "file": file}

        def use(local, ty=""):
            return {"copy": {"local": local, "proj": []}, "ty": ty}

        def switch_bool(local, if_false, if_true):
            return {"k": "switch", "discr": use(local, "bool"), "targets": [[0, if_false]], "otherwise": if_true, "line": line, "exp": False, "file": file}

        base = plan["base"]
        bty = str(base.get("ty", "")) or self.lty(op_place(base)["local"])
        head = mk()
        # head: item = next(&mut base)
        rl = self.new_local("&mut " + bty)
        il = self.new_local("std::option::Option<item of %s>" % bty)
        head["stmts"].append({"dst": {"local": rl, "proj": []}, "rv": {"k": "ref", "mut": True, "place": op_place(base)}, "line": line, "file": file})
        sw = mk()
        head["term"] = {"k": "call", "callee": {"path": "std::iter::Iterator::next", "name": "next", "trait": "std::iter::Iterator", "self_ty": bty,
                                                "crate": "core", "resolved": None, "synthetic": True},
                        "args": [{"move": {"local": rl, "proj": []}, "ty": "&mut " + bty}], "dst": {"local": il, "proj": []},
                        "target": sw["id"], "unwind": t.get("unwind"), "line": line, "exp": False, "file": file, "synthetic": True}
        dl = self.new_local("isize")
        sw["stmts"].append({"dst": {"local": dl, "proj": []}, "rv": {"k": "discriminant", "place": {"local": il, "proj": []}}, "line": line, "file": file})
        done = mk()      # the iterator is exhausted / the consumer stopped early
        first = mk()
        sw["term"] = {"k": "switch", "discr": {"move": {"local": dl, "proj": []}, "ty": "isize"}, "targets": [[0, done["id"]], [1, first["id"]]],
                      "otherwise": done["id"], "line": line, "exp": False, "file": file}
        xl = self.new_local("item")
        first["stmts"].append({"dst": {"local": xl, "proj": []}, "rv": {"k": "use", "ops": [{"move": {"local": il, "proj": [{"downcast": "Some"}, {"field": "0", "idx": 0, "of": ""}]}, "ty": ""}]},
                               "line": line, "file": file})
        cur = first

        def bind(how, local):
            if how == "val":
                return use(local)
            r = self.new_local("&item")
            cur["stmts"].append({"dst": {"local": r, "proj": []}, "rv": {"k": "ref", "mut": False, "place": {"local": local, "proj": []}}, "line": line, "file": file})
            return use(r)

        for name, clo_op, cb, ablk in plan["adapters"]:
            how, res = self.ADAPTERS[name]
            after = mk()
            entry, ret = self.run_closure(cb, clo_op, {2: bind(how, xl)}, after["id"], t.get("unwind"), depth, stack, line, file, mk)
            cur["term"] = goto(entry)
            cur = after
            if res == "map":
                xl = ret
            elif res in ("keep", "stop"):
                nxt = mk()
                cur["term"] = switch_bool(ret, head["id"] if res == "keep" else done["id"], nxt["id"])
                cur = nxt
            elif res in ("optmap", "optstop"):
                nxt = mk()
                d2 = self.new_local("isize")
                cur["stmts"].append({"dst": {"local": d2, "proj": []}, "rv": {"k": "discriminant", "place": {"local": ret, "proj": []}}, "line": line, "file": file})
                miss = head["id"] if res == "optmap" else done["id"]
                cur["term"] = {"k": "switch", "discr": {"move": {"local": d2, "proj": []}, "ty": "isize"}, "targets": [[0, miss], [1, nxt["id"]]],
                               "otherwise": miss, "line": line, "exp": False, "file": file}
                x2 = self.new_local("item")
                nxt["stmts"].append({"dst": {"local": x2, "proj": []}, "rv": {"k": "use", "ops": [{"move": {"local": ret, "proj": [{"downcast": "Some"}, {"field": "0", "idx": 0, "of": ""}]}, "ty": ""}]},
                                     "line": line, "file": file})
                xl = x2
                cur = nxt
            # the adapter call itself no longer does anything the analysis needs: keep it as a ghost so that its result type stays known
            ablk["term"] = dict(ablk["term"], ghost=True, absorbed=True)
        if plan["kind"] == "collect":
            # out = new(); loop { out.push(x) }; dst = out      (the collect call stays as a ghost: its type arguments name the collection)
            out = self.new_local("collection built by collect")
            mkc = mk()
            nb["term"] = {"k": "call", "callee": {"path": "std::vec::Vec::<T>::new", "name": "new", "trait": None, "self_ty": "std::vec::Vec<T>", "crate": "alloc",
                                                  "resolved": None, "synthetic": True},
                          "args": [], "dst": {"local": out, "proj": []}, "target": head["id"], "unwind": t.get("unwind"), "line": line, "exp": False,
                          "file": file, "synthetic": True}
            pr = self.new_local("&mut collection")
            cur["stmts"].append({"dst": {"local": pr, "proj": []}, "rv": {"k": "ref", "mut": True, "place": {"local": out, "proj": []}}, "line": line, "file": file})
            cur["term"] = {"k": "call", "callee": {"path": "std::vec::Vec::<T>::push", "name": "push", "trait": None, "self_ty": "std::vec::Vec<T>", "crate": "alloc",
                                                   "resolved": None, "synthetic": True},
                           "args": [{"move": {"local": pr, "proj": []}, "ty": "&mut std::vec::Vec<T>"}, {"move": {"local": xl, "proj": []}, "ty": ""}],
                           "dst": {"local": self.new_local("()"), "proj": []}, "target": head["id"], "unwind": t.get("unwind"), "line": line, "exp": False,
                           "file": file, "synthetic": True}
            done["stmts"].append({"dst": t["dst"], "rv": {"k": "use", "ops": [{"move": {"local": out, "proj": []}, "ty": ""}]}, "line": line, "file": file})
            ghost = dict(t, ghost=True, absorbed=True, target=t["target"])
            ghost["dst"] = {"local": self.new_local("ghost"), "proj": []}
            done["term"] = ghost
            done["orig"] = nb.get("orig")
            mkc["term"] = goto(head["id"])
            return
        if plan["kind"] == "opaque":
            clo_op, cb, pi, how, res = plan["closure"]
            after = mk()
            entry, ret = self.run_closure(cb, clo_op, {pi: bind(how, xl)}, after["id"], t.get("unwind"), depth, stack, line, file, mk)
            cur["term"] = goto(entry)
            nd = self.new_local("bool")
            after["term"] = {"k": "switch", "discr": use(nd, "nondet"), "targets": [[0, head["id"]]], "otherwise": done["id"], "line": line, "exp": False, "file": file}
            done["term"] = t
            done["orig"] = nb.get("orig")
            nb["term"] = goto(head["id"])
            return
        if plan["kind"] == "consumer":
            clo_op, cb, pi, how, res = plan["closure"]
            name = t["callee"]["name"]
            after = mk()
            entry, ret = self.run_closure(cb, clo_op, {pi: bind(how, xl)}, after["id"], t.get("unwind"), depth, stack, line, file, mk)
            cur["term"] = goto(entry)
            back = head["id"]
            if name in ("position", "any", "all", "find"):
                # the result of these consumers is a function of how the loop was left: model it, keep the call as a ghost
                stop, exh, join = mk(), done, mk()
                ghost = dict(t, ghost=True, absorbed=True, target=t["target"])
                ghost["dst"] = {"local": self.new_local("ghost"), "proj": []}
                join["term"] = ghost
                join["orig"] = nb.get("orig")

                def assign(blk, rv):
                    blk["stmts"].append({"dst": t["dst"], "rv": rv, "line": line, "file": file})
                    blk["term"] = goto(join["id"])

                def cbool(v):
                    return {"k": "use", "ops": [{"const": "true" if v else "false", "ty": "bool"}]}

                def opt(v=None):
                    return {"k": "aggregate", "adt": "std::option::Option", "variant": "Some" if v is not None else "None", "ops": [v] if v is not None else []}
                if name == "position":
                    cnt = self.new_local("usize")
                    nb["stmts"].append({"dst": {"local": cnt, "proj": []}, "rv": {"k": "use", "ops": [{"const": "0_usize", "ty": "usize"}]}, "line": line, "file": file})
                    inc = mk()
                    inc["stmts"].append({"dst": {"local": cnt, "proj": []}, "rv": {"k": "binop", "op": "Add", "ops": [use(cnt, "usize"), {"const": "1_usize", "ty": "usize"}]},
                                         "line": line, "file": file})
                    inc["term"] = goto(head["id"])
                    back = inc["id"]
                    assign(stop, opt(use(cnt, "usize")))
                    assign(exh, opt())
                elif name == "find":
                    assign(stop, opt(use(xl)))
                    assign(exh, opt())
                elif name == "any":
                    assign(stop, cbool(True))
                    assign(exh, cbool(False))
                else:
                    assign(stop, cbool(False))
                    assign(exh, cbool(True))
                after["term"] = switch_bool(ret, stop["id"], back) if name == "all" else switch_bool(ret, back, stop["id"])
                nb["term"] = goto(head["id"])
                return
            if res == "none":
                after["term"] = goto(head["id"])
            elif res == "stop_false":
                after["term"] = switch_bool(ret, done["id"], head["id"])
            elif res == "stop_true":
                after["term"] = switch_bool(ret, head["id"], done["id"])
            else:   # stop_some / stop_any: the closure's result decides, we do not model which way
                nd = self.new_local("bool")
                after["term"] = {"k": "switch", "discr": use(nd, "nondet"), "targets": [[0, head["id"]]], "otherwise": done["id"], "line": line, "exp": False, "file": file}
            # the consumer call stays: its result is what the caller uses
            done["term"] = t
            done["orig"] = nb.get("orig")
            nb["term"] = goto(head["id"])
        else:
            # external iteration over an adapter chain: next() yields Some(mapped element) or None
            cur["stmts"].append({"dst": t["dst"], "rv": {"k": "aggregate", "adt": "std::option::Option", "variant": "Some", "ops": [{"move": {"local": xl, "proj": []}, "ty": ""}]},
                                 "line": line, "file": file})
            cur["term"] = goto(t["target"])
            done["stmts"].append({"dst": t["dst"], "rv": {"k": "aggregate", "adt": "std::option::Option", "variant": "None", "ops": []}, "line": line, "file": file})
            done["term"] = goto(t["target"])
            ghost = dict(t, ghost=True, absorbed=True, target=head["id"])
            ghost["dst"] = {"local": self.new_local("ghost"), "proj": []}
            nb["term"] = ghost

    def f_ty(self, t):
        d = t["dst"]
        return "ghost"

    def closure_of_local(self, new_local, _depth=0):
        """closure body whose value was built into this (new-space) local by an aggregate statement, bound to it as the parameter of an
        inlined helper, or reached through a plain copy / move / reference of such a local"""
        if new_local in self.closure_bind:
            return self.closure_bind[new_local]
        found = None
        for blk in self.blocks:
            for s in blk["stmts"]:
                if s["dst"]["local"] == new_local and not s["dst"]["proj"]:
                    rv = s["rv"]
                    if rv["k"] == "aggregate" and "closure" in rv:
                        return self.f.body(rv["closure"])
                    src = None
                    if rv["k"] == "use" or (rv["k"] == "cast" and "ClosureFnPointer" in rv.get("cast", "")):
                        src = op_place(rv["ops"][0])
                    elif rv["k"] == "ref":
                        src = rv["place"]
                    if src is not None and all(e == "deref" for e in src["proj"]) and src["local"] != new_local and _depth < 4:
                        found = found or self.closure_of_local(src["local"], _depth + 1)
        return found

    def direct_closure_call(self, nb, t, depth, stack, file):
        """`Fn::call(&f, (a, b))` / call_mut / call_once on a closure we can see (typically the closure parameter of an inlined higher-order
        helper): replace the call by a copy of the closure body, parameters bound to the components of the argument tuple"""
        c = t["callee"]
        if t.get("target") is None or depth >= MAX_DEPTH or len(self.blocks) > MAX_TOTAL_BLOCKS:
            return False
        if "indirect_local" in c:
            # call through a fn pointer that a non-capturing closure was coerced to: arguments are passed directly
            cb = self.closure_of_local(c["indirect_local"])
            if cb is None or cb.path in stack or len(t["args"]) != cb.argc - 1:
                return False
            clm = {l["id"]: self.new_local(l["ty"]) for l in cb.d["locals"]}
            for i in range(2, cb.argc + 1):
                nb["stmts"].append({"dst": {"local": clm[i], "proj": []}, "rv": {"k": "use", "ops": [t["args"][i - 2]]}, "line": t.get("line"), "file": file})
        else:
            if c.get("name") not in ("call", "call_mut", "call_once") or not (c.get("trait") or "").startswith("std::ops::Fn") or len(t["args"]) != 2:
                return False
            fp, ap = op_place(t["args"][0]), op_place(t["args"][1])
            if fp is None or ap is None or any(e != "deref" for e in fp["proj"]):
                return False
            cb = self.closure_of_local(fp["local"])
            if cb is None or cb.path in stack:
                return False
            clm = {l["id"]: self.new_local(l["ty"]) for l in cb.d["locals"]}
            nb["stmts"].append({"dst": {"local": clm[1], "proj": []}, "rv": {"k": "use", "ops": [t["args"][0]]}, "line": t.get("line"), "file": file})
            for i in range(2, cb.argc + 1):
                comp = {"local": ap["local"], "proj": list(ap["proj"]) + [{"field": str(i - 2), "idx": i - 2, "of": ""}]}
                nb["stmts"].append({"dst": {"local": clm[i], "proj": []}, "rv": {"k": "use", "ops": [{"copy": comp, "ty": cb.ltype.get(i, "")}]},
                                    "line": t.get("line"), "file": file})
        cont = self.new_block(nb["cleanup"])
        cont["term"] = {"k": "goto", "target": t["target"], "line": t.get("line"), "exp": False, "file": file}
        cont["src"], cont["stack"] = nb.get("src"), nb.get("stack")
        entry = self.copy_body(cb, clm, (t["dst"], cont["id"]), t.get("unwind"), depth + 1, stack + (cb.path,), cb.file)
        self.inlined.append(cb.path)
        nb["term"] = {"k": "goto", "target": entry, "line": t.get("line"), "exp": False, "file": file, "closure": cb.path}
        return True

    _ATOMIC_WRITES = {"store", "swap", "fetch_add", "fetch_sub", "fetch_update", "compare_exchange", "compare_exchange_weak", "fetch_and", "fetch_or",
                      "fetch_xor", "fetch_max", "fetch_min", "fetch_nand"}

    def writes_atomic(self, tb, _seen=None):
        """does this crate-local body (transitively through resolved crate-local calls) perform an atomic write / RMW?"""
        memo = self.f.__dict__.setdefault("_writes_atomic", {})
        if tb.path in memo:
            return memo[tb.path]
        _seen = _seen or set()
        if tb.path in _seen:
            return False
        _seen.add(tb.path)
        res = False
        for bb, t in tb.calls():
            c = t["callee"]
            if not isinstance(c, dict) or "path" not in c:
                continue
            if c.get("name") in self._ATOMIC_WRITES and "atomic::Atomic" in ((c.get("self_ty") or "") + c.get("path", "")):
                res = True
                break
            if c.get("crate") == "specs":
                for x in self.f.targets(c):
                    if x.kind != "Closure" and self.writes_atomic(x, _seen):
                        res = True
                        break
            if res:
                break
        memo[tb.path] = res
        return res

    def inline_target(self, c, depth, stack, higher_order=False):
        if depth >= MAX_DEPTH or "path" not in c or c.get("crate") != "specs":
            return None
        if c.get("trait") and not c.get("resolved"):
            return None
        if c.get("resolved") == "<virtual>":
            return None
        tg = self.f.targets(c)
        if len(tg) != 1:
            return None
        tb = tg[0]
        if tb.kind == "Closure" or tb.path in stack or len(tb.blocks) > MAX_CALLEE_BLOCKS:
            return None
        if tb.vis == "Public" or tb.trait_item:
            return None     # API functions and trait methods are analysed on their own
        if tb.argc == 1 and tb.ltype.get(0) == "bool" and tb.ltype.get(1, "").startswith("&"):
            return None     # `fn(&self) -> bool` state queries (emission switches, liveness flags) are what guards are recognised by
        if any("sync::atomic::Atomic" in tb.ltype.get(i, "") for i in range(1, tb.argc + 1)) and not higher_order and self.writes_atomic(tb):
            return None     # helpers that are handed an atomic AND modify it (directly or through further crate-local helpers) are the RMW
                            # primitives C10 / C01 are written over; plain forwarders (`get_mut`, `load`) are looked through (a helper that is also
                            # handed a closure - a CAS loop parameterised by its step - only means something once that closure is substituted)
        if tb.self_ty in ROLE_TYPES and (not stack or self.f.body(stack[0]) is None or self.f.body(stack[0]).self_ty != tb.self_ty):
            return None
        return tb


def expand(facts, body):
    bld = _Builder(facts, body)
    lm = {l["id"]: l["id"] for l in body.d["locals"]}
    entry = bld.copy_body(body, lm, None, None, 0, (body.path,), body.file)
    assert entry == 0
    d = dict(body.d)
    d["blocks"] = bld.blocks
    d["locals"] = bld.locals
    nb = Body(d, facts)
    nb.expanded_from = body
    nb.inlined = bld.inlined
    return nb


# ======================================================================================================================
# path-sensitive state splitting
# ======================================================================================================================
TOP = None
SPLIT_CAP = 8
SPLIT_MAX_NODES = 6000
VARIANT_IDX = {"None": 0, "Some": 1, "Ok": 0, "Err": 1, "Continue": 0, "Break": 1}


def _mentions(place, out):
    out.add(place["local"])
    for e in place["proj"]:
        if isinstance(e, dict) and "index" in e:
            out.add(e["index"])


def _op_mentions(o, out):
    p = op_place(o)
    if p is not None:
        _mentions(p, out)


def _block_use_def(blk):
    """(locals read before any whole redefinition in the block, locals wholly defined in the block)"""
    use, de = set(), set()

    def u(s):
        for l in s:
            if l not in de:
                use.add(l)
    for s in blk["stmts"]:
        m = set()
        rv = s["rv"]
        for o in rv.get("ops", []):
            _op_mentions(o, m)
        if "place" in rv:
            _mentions(rv["place"], m)
        if s["dst"]["proj"]:
            _mentions(s["dst"], m)
        u(m)
        if not s["dst"]["proj"]:
            de.add(s["dst"]["local"])
    t = blk["term"]
    m = set()
    if t["k"] == "switch":
        _op_mentions(t["discr"], m)
    elif t["k"] == "drop":
        _mentions(t["place"], m)
    elif t["k"] == "call":
        for a in t["args"]:
            _op_mentions(a, m)
        if t["dst"]["proj"]:
            _mentions(t["dst"], m)
        if isinstance(t["callee"], dict) and "local" in t["callee"]:
            m.add(t["callee"]["local"])
    elif t["k"] == "assert":
        if "cond" in t:
            _op_mentions(t["cond"], m)
    elif t["k"] == "return":
        m.add(0)
    u(m)
    return use, de


def _liveness(body):
    ud = {b: _block_use_def(blk) for b, blk in body.blocks.items()}
    succ = {b: body.raw_succs(b, True) for b in body.blocks}
    live = {b: set(ud[b][0]) for b in body.blocks}
    changed = True
    while changed:
        changed = False
        for b in sorted(body.blocks, reverse=True):
            out = set()
            for s in succ[b]:
                out |= live[s]
            # the destination of a call is defined on the normal edge only: keep it simple, do not kill it
            new = ud[b][0] | (out - ud[b][1])
            if new != live[b]:
                live[b] = new
                changed = True
    return live


def _trackable(body):
    bad = set()
    for blk in body.blocks.values():
        for s in blk["stmts"]:
            if s["dst"]["proj"]:
                bad.add(s["dst"]["local"])
            rv = s["rv"]
            if rv["k"] == "rawptr" or (rv["k"] == "ref" and rv.get("mut")):
                bad.add(rv["place"]["local"])
            if rv["k"] == "setdiscr":
                bad.add(s["dst"]["local"])
        t = blk["term"]
        if t["k"] == "call" and t["dst"]["proj"]:
            bad.add(t["dst"]["local"])
    return bad


def _variant_index(body, local_ty, name):
    bt = strip_ref_base(local_ty)
    if bt.endswith(("option::Option", "result::Result", "ops::ControlFlow")):
        return VARIANT_IDX.get(name)
    adt = body.facts.adt(bt) if bt else None
    if adt:
        for i, v in enumerate(adt["variants"]):
            if v["name"] == name:
                return i
    return None


def strip_ref_base(ty):
    from .core import base_ty
    return base_ty(ty or "")


class _Split:
    def __init__(self, body):
        self.b = body
        self.bad = _trackable(body)
        self.live = _liveness(body)

    def val(self, st, local):
        v = st.get(local, TOP)
        return v

    def deref_val(self, st, place):
        """value of a place that is a tracked local or the deref of a reference to one"""
        l = place["local"]
        pr = [e for e in place["proj"]]
        v = st.get(l, TOP)
        if not pr:
            return v, l
        if pr == ["deref"] and v is not TOP and v[0] == "r":
            return st.get(v[1], TOP), v[1]
        return TOP, None

    def op_val(self, st, o):
        from .core import const_bool
        cb = const_bool(o)
        if cb is not None:
            return ("b", cb)
        if isinstance(o, dict) and "const" in o:
            txt = o["const"]
            ty = str(o.get("ty", ""))
            if "option::Option" in ty and txt.rstrip().endswith("None"):
                return ("v", "None")
            return TOP
        p = op_place(o)
        if p is None:
            return TOP
        v, _ = self.deref_val(st, p)
        return v

    def stmt(self, st, s):
        d = s["dst"]
        if d["proj"]:
            return
        l = d["local"]
        rv = s["rv"]
        k = rv["k"]
        v = TOP
        if l not in self.bad:
            if k == "use":
                v = self.op_val(st, rv["ops"][0])
            elif k == "aggregate" and "variant" in rv and "adt" in rv:
                v = ("v", rv["variant"])
            elif k == "ref" and not rv.get("mut"):
                p = rv["place"]
                if not p["proj"] and p["local"] not in self.bad:
                    v = ("r", p["local"])
                elif p["proj"] == ["deref"]:
                    pv = st.get(p["local"], TOP)
                    if pv is not TOP and pv[0] == "r":
                        v = pv
            elif k == "discriminant":
                pv, src = self.deref_val(st, rv["place"])
                if pv is not TOP and pv[0] == "v" and src is not None:
                    i = _variant_index(self.b, self.b.ltype.get(src, ""), pv[1])
                    if i is not None:
                        v = ("i", i)
            elif k == "unop" and rv.get("op") == "Not":
                pv = self.op_val(st, rv["ops"][0])
                if pv is not TOP and pv[0] == "b":
                    v = ("b", not pv[1])
            elif k == "cast":
                pv = self.op_val(st, rv["ops"][0])
                if pv is not TOP and pv[0] in ("i",):
                    v = pv
        if v is TOP:
            st.pop(l, None)
        else:
            st[l] = v
        # a redefinition invalidates references to the local
        for k2 in [k2 for k2, v2 in st.items() if v2[0] == "r" and v2[1] == l and k2 != l]:
            if v is TOP or True:
                pass

    def call(self, st, t):
        d = t["dst"]
        if d["proj"]:
            return
        l = d["local"]
        v = TOP
        c = t["callee"]
        path = c.get("path", "") if isinstance(c, dict) else ""
        if l not in self.bad and t["args"]:
            a0 = self.op_val(st, t["args"][0])
            if path == "std::ops::Try::branch":
                if a0 is not TOP and a0[0] == "v":
                    v = ("v", "Continue") if a0[1] in ("Some", "Ok") else ("v", "Break") if a0[1] in ("None", "Err") else TOP
            elif path == "std::ops::FromResidual::from_residual":
                ty = self.b.ltype.get(l, "")
                if "option::Option" in ty.split("<")[0]:
                    v = ("v", "None")
                elif "result::Result" in ty.split("<")[0]:
                    v = ("v", "Err")
            elif re.match(r"std::(option::Option|result::Result)::<.*>::is_(some|none|ok|err)$", path):
                if a0 is not TOP and a0[0] == "r":
                    a0 = st.get(a0[1], TOP)
                if a0 is not TOP and a0[0] == "v":
                    want = {"is_some": "Some", "is_none": "None", "is_ok": "Ok", "is_err": "Err"}[path.rsplit("::", 1)[1]]
                    v = ("b", a0[1] == want)
        if v is TOP:
            st.pop(l, None)
        else:
            st[l] = v

    def run(self):
        b = self.b
        nodes = {}
        order = []
        per_block = collections.defaultdict(list)
        merged = {}

        def restrict(st, bb):
            lv = self.live[bb]
            out = {}
            for k, v in st.items():
                if k in lv:
                    out[k] = v
                    if v[0] == "r" and v[1] in st:
                        out[v[1]] = st[v[1]]
            return out

        def node(bb, st):
            st = restrict(st, bb)
            key = (bb, frozenset(st.items()))
            if key in nodes:
                return nodes[key]
            if len(per_block[bb]) >= SPLIT_CAP:
                # too many variants of this block: fall back to one merged state (entries every variant agrees on)
                if bb not in merged:
                    common = dict(st)
                    for k2 in per_block[bb]:
                        o = dict(k2[1])
                        common = {k: v for k, v in common.items() if o.get(k) == v}
                    merged[bb] = common
                else:
                    merged[bb] = {k: v for k, v in merged[bb].items() if st.get(k) == v}
                key = (bb, frozenset(merged[bb].items()))
                if key in nodes:
                    return nodes[key]
            nid = len(order)
            nodes[key] = nid
            order.append(key)
            per_block[bb].append(key)
            return nid

        node(0, {})
        out_blocks = []
        i = 0
        while i < len(order):
            if len(order) > SPLIT_MAX_NODES:
                return None
            bb, fst = order[i]
            st = dict(fst)
            blk = b.blocks[bb]
            for s in blk["stmts"]:
                self.stmt(st, s)
            t = blk["term"]
            nt = dict(t)
            k = t["k"]
            if k == "switch":
                dv = self.op_val(st, t["discr"])
                known = None
                if dv is not TOP and dv[0] == "b":
                    known = 1 if dv[1] else 0
                elif dv is not TOP and dv[0] == "i":
                    known = dv[1]
                if known is not None:
                    tv = {v: x for v, x in t["targets"]}
                    tgt = tv.get(known, t["otherwise"])
                    nt = {"k": "goto", "target": node(tgt, st), "line": t.get("line"), "exp": t.get("exp", False), "decided": known}
                    if "file" in t:
                        nt["file"] = t["file"]
                else:
                    nt["targets"] = [[v, node(x, st)] for v, x in t["targets"]]
                    nt["otherwise"] = node(t["otherwise"], st)
            else:
                uw = t.get("unwind")
                if isinstance(uw, int):
                    nt["unwind"] = node(uw, st)
                if k == "call":
                    self.call(st, t)
                if t.get("target") is not None and k in ("call", "drop", "assert", "goto"):
                    nt["target"] = node(t["target"], st)
            out_blocks.append({"id": i, "cleanup": blk["cleanup"], "stmts": blk["stmts"], "term": nt, "orig": blk.get("orig", bb),
                               "src": blk.get("src", b.path), "stack": blk.get("stack", (b.path,))})
            i += 1
        return out_blocks


def split(facts, body):
    sp = _Split(body)
    blocks = sp.run()
    if blocks is None or len(blocks) == len(body.blocks):
        if blocks is None:
            return body
    d = dict(body.d)
    d["blocks"] = blocks
    nb = Body(d, facts)
    for a in ("expanded_from", "inlined"):
        if hasattr(body, a):
            setattr(nb, a, getattr(body, a))
    return nb


def xbody(facts, body):
    """inline + split"""
    e = expand(facts, body)
    e = split(facts, e)
    if not hasattr(e, "expanded_from"):
        e.expanded_from = body
    return e


def xfacts(raw):
    """Expanded view of a fact base: every body inlined + split.  `bodies` leaves out the bodies that were absorbed
    (private helpers / closures whose every use was inlined into the bodies that use them); `by_path` still finds them."""
    from .core import Facts
    if getattr(raw, "_x", None) is not None:
        return raw._x
    x = Facts.__new__(Facts)
    x.__dict__.update(raw.__dict__)
    x.raw = raw
    x._callers = None
    x._closure_site = None
    allx, inl, still, loose = [], set(), set(), set()
    for b in raw.bodies:
        e = xbody(raw, b)
        e.facts = x
        allx.append(e)
        got = set(getattr(e, "inlined", []))
        inl |= got
        for bb, t in e.calls():
            if t.get("ghost"):
                continue
            for tb in raw.targets(t["callee"]):
                still.add(tb.path)
        for blk in e.blocks.values():
            for s in blk["stmts"]:
                rv = s["rv"]
                if rv["k"] == "aggregate" and "closure" in rv and rv["closure"] not in got:
                    loose.add(rv["closure"])
    x.absorbed = inl - still - loose
    x.all_bodies = allx
    x.bodies = [e for e in allx if e.path not in x.absorbed]
    x.by_path = collections.defaultdict(list)
    for e in allx:
        x.by_path[e.path].append(e)
    x.impls_of_method = collections.defaultdict(list)
    for e in allx:
        if e.trait_item and e.impl:
            x.impls_of_method[e.trait_item].append(e)
    raw._x = x
    return x
