"""Compile / compile-fail witnesses (DESIGN.md 2.2 P7).

A witness is a small program written as an external user of the crate would write it.  It is compiled
(type-checked only, --emit=metadata) by rustc +nightly against the libspecs.rmeta that the fact extraction
of the CURRENT tree just produced.  Header lines:
    //@ expect: ok                       must compile
    //@ expect: E0277 DistinctStorage    must fail with this error code, and one of its diagnostics must mention the substring
    //@ config: F                        feature configuration (default A)
    //@ twin: <name>                     the compiling twin that differs only in the offending line (checked to exist and be `ok`)
Nothing is executed."""
import json
import os
import re
import subprocess

from . import extract

WDIR = os.path.join(extract.VERIF, "witness")


def parse(name):
    p = os.path.join(WDIR, name + ".rs")
    meta = {"expect": None, "config": "A", "twin": None, "path": p, "extern": ""}
    with open(p) as fh:
        for line in fh:
            m = re.match(r"//@ (\w+): (.*)", line.strip())
            if m:
                meta[m.group(1)] = m.group(2).strip()
    return meta


def real_field_names(ctx, meta):
    """`//@ realname: alloc world::entity::EntitiesRes`: the witness names a PRIVATE field (to show that it is private).  If the field was
    renamed (sa/canon.py mapped it back for the rule packs) the witness is compiled with the field's real name, and the expected
    diagnostic substring is adjusted, so that it keeps proving privacy instead of failing for 'no such field'."""
    spec = meta.get("realname")
    if not spec:
        return None
    canon_name, adt = spec.split()[:2]
    m = ctx.facts(meta["config"]).d.get("_canon") or {}
    for cur, can in m.items():
        if can == "%s.%s" % (adt, canon_name) and cur.startswith(adt + "."):
            return canon_name, cur[len(adt) + 1:]
    return None


def compile_witness(ctx, name, meta):
    cfg = meta["config"]
    fdir = ctx.facts_dir(cfg)
    rn = real_field_names(ctx, meta)
    if rn:
        src = open(meta["path"]).read().replace("." + rn[0], "." + rn[1])
        tmp = os.path.join(extract.CACHE, "witness-out", "%s-%d.rs" % (name, os.getpid()))
        os.makedirs(os.path.dirname(tmp), exist_ok=True)
        open(tmp, "w").write(src)
        meta = dict(meta, path=tmp)
        if meta.get("expect") and rn[0] in meta["expect"].split()[1:]:
            meta["expect"] = " ".join([meta["expect"].split()[0]] + [rn[1] if x == rn[0] else x for x in meta["expect"].split()[1:]])
    # hold the configuration's lock from the consistency check to the end of the rustc run: the cached rmeta is only valid together
    # with the dependency artefacts that are in the shared target directory right now
    with extract.config_lock(cfg):
        extract.ensure_target_current(cfg, locked=True)
        return _compile(name, meta, cfg, fdir)


def _compile(name, meta, cfg, fdir):
    rmeta = os.path.join(fdir, "libspecs.rmeta")
    if not os.path.exists(rmeta):
        raise extract.InfraError("the crate metadata %s the witnesses are compiled against has disappeared (cache pruned by a concurrent run?)" % rmeta)
    deps = os.path.join(extract.CACHE, "target", cfg, "debug", "deps")
    out = os.path.join(extract.CACHE, "witness-out")
    os.makedirs(out, exist_ok=True)
    env = dict(os.environ)
    env["LD_LIBRARY_PATH"] = extract.sysroot_lib() + ":" + env.get("LD_LIBRARY_PATH", "")
    cmd = ["rustc", "+nightly", "--edition", "2021", "--crate-type", "lib", "--crate-name", "w_" + re.sub(r"\W", "_", name),
           "--emit=metadata", "-o", os.path.join(out, "%s-%d.rmeta" % (name, os.getpid())), "-L", "dependency=" + deps,
           "--extern", "specs=" + rmeta, "--error-format=json", "-Awarnings", meta["path"]]
    import glob
    for ex in [x.strip() for x in meta.get("extern", "").split(",") if x.strip()]:
        cands = sorted(glob.glob(os.path.join(deps, "lib%s-*.rmeta" % ex)) + glob.glob(os.path.join(deps, "lib%s-*.rlib" % ex)), key=os.path.getmtime)
        if not cands:
            raise extract.InfraError("witness %s needs crate %s which is not in %s" % (name, ex, deps))
        cmd[-1:-1] = ["--extern", "%s=%s" % (ex, cands[-1])]
    r = subprocess.run(cmd, capture_output=True, text=True, env=env)
    try:
        os.remove(os.path.join(out, "%s-%d.rmeta" % (name, os.getpid())))
    except OSError:
        pass
    diags = []
    for line in r.stderr.splitlines():
        try:
            d = json.loads(line)
        except ValueError:
            continue
        if d.get("level") == "error":
            diags.append(((d.get("code") or {}).get("code"), d.get("message", ""), d.get("rendered", "")))
    return r.returncode, diags, r.stderr


def check(ctx, pid, name):
    meta = parse(name)
    rule = pid + "-W"
    rn = real_field_names(ctx, meta)
    if rn and meta.get("expect") and rn[0] in meta["expect"].split()[1:]:
        meta["expect"] = " ".join([meta["expect"].split()[0]] + [rn[1] if x == rn[0] else x for x in meta["expect"].split()[1:]])
    exp = meta["expect"]
    rc, diags, raw = compile_witness(ctx, name, meta)
    where = "witness/%s.rs" % name
    ctx.witnesses.append({"name": name, "expect": exp, "config": meta["config"]})
    if exp == "ok":
        ok = rc == 0
        return ctx.ob(rule, name + " compiles", ok, where,
                      "" if ok else "control witness no longer compiles (so its failing twin proves nothing): %s" % (
                          [(c, m) for c, m, _ in diags][:3] or raw[-300:]), config=meta["config"])
    code, _, sub = exp.partition(" ")
    if rc == 0:
        return ctx.ob(rule, name + " is rejected (%s)" % exp, False, where,
                      "the compiler ACCEPTS this program: the type-level guarantee it witnesses is gone", config=meta["config"])
    hit = [(c, m) for c, m, r_ in diags if c == code and (not sub or sub in m or sub in r_)]
    ok = bool(hit)
    res = ctx.ob(rule, name + " is rejected (%s)" % exp, ok, where,
                 "" if ok else "rejected, but not for the expected reason (got %s): the witness no longer proves the intended guarantee" % (
                     [(c, m[:120]) for c, m, _ in diags][:4]), config=meta["config"])
    if meta["twin"]:
        check(ctx, pid, meta["twin"])
    return res


def run_set(ctx, pid, names):
    ctx.rule(pid + "-W", "compile / compile-fail witnesses against the crate as an external user sees it (each failing witness has a compiling twin)")
    for n in names:
        check(ctx, pid, n)
